#!/venv/bin/python
"""Run the pinned repository suite and compare with /root/.vp/BASELINE.json stable_pass.
usage: tools/baseline.py [repo_dir] ; exit 0 iff every stable_pass test passed."""
import json, os, subprocess, sys, tempfile
import xml.etree.ElementTree as ET

repo = sys.argv[1] if len(sys.argv) > 1 else "/repo"
base = json.load(open("/root/.vp/BASELINE.json"))
want = set(base["stable_pass"])
out = tempfile.mktemp(suffix=".xml", dir="/tmp")
env = dict(os.environ)
env.pop("DASK_EXPR_VERIF", None)
cmd = ["/venv/bin/python", "-m", "pytest", "-q", "-p", "no:cacheprovider", "--timeout=900",
       "--continue-on-collection-errors", "-n", os.environ.get("BASELINE_N", "14"), f"--junitxml={out}"]
p = subprocess.run(cmd, cwd=repo, env=env, capture_output=True, text=True)
print(p.stdout.strip().splitlines()[-1] if p.stdout.strip() else p.stderr[-500:])
passed = set()
for tc in ET.parse(out).getroot().iter("testcase"):
    ok = not any(ch.tag in ("failure", "error", "skipped") for ch in tc)
    if ok:
        passed.add(f"{tc.get('classname')}::{tc.get('name')}")
os.remove(out)
missing = sorted(want - passed)
print(f"stable_pass={len(want)} passed_now={len(passed)} missing={len(missing)}")
for m in missing[:40]:
    print("  MISSING", m)
sys.exit(1 if missing else 0)
