#!/bin/bash
# usage: tools/seedmatrix.sh <outdir> <seed>:<check>[,<check>...] ...
# Runs the quick checks named for each seeded change against a scratch worktree of /repo HEAD with the change applied
# (never /repo itself), one after another, and writes one summary line per (seed, check) to <outdir>/matrix.txt.
# The worktree lives under /tmp/seedchk and is removed after each seed.
out=$1; shift
mkdir -p $out
for spec in "$@"; do
  seed=${spec%%:*}; checks=${spec#*:}
  src=/verif/seeded/$seed
  patch=patch.diff; [ -f $src/patch_head.diff ] && patch=patch_head.diff
  wt=/tmp/seedchk/$seed
  rm -rf $wt; git -C /repo worktree prune
  git -C /repo worktree add -q --detach $wt HEAD || { echo "$seed worktree failed" >> $out/matrix.txt; continue; }
  ( cd $wt && git apply $src/$patch ) || { echo "$seed PATCH DOES NOT APPLY" >> $out/matrix.txt; git -C /repo worktree remove --force $wt; continue; }
  for c in ${checks//,/ }; do
    s=$(date +%s)
    VERIF_REPO=$wt VERIF_EVIDENCE_DIR=$out/evidence_$seed VERIF_REPLAY_DIR=$out/replays ./check $c --tier ${TIER:-quick} > $out/$seed.$c.log 2>&1
    rc=$?
    e=$(( $(date +%s) - s ))
    kinds=$(grep -A1 "^VIOLATION" $out/$seed.$c.log | grep -v "^VIOLATION" | grep -v "^--" | cut -c1-120 | sort | uniq -c | sort -rn | head -3 | tr '\n' ';')
    echo "$seed $c rc=$rc ${e}s violations=$(grep -c '^VIOLATION' $out/$seed.$c.log) known=$(grep -c '^KNOWN-FINDING' $out/$seed.$c.log) | $kinds" >> $out/matrix.txt
  done
  git -C /repo worktree remove --force $wt
  rm -rf $out/evidence_$seed
done
echo DONE >> $out/matrix.txt
