#!/venv/bin/python
"""Evaluate single programs with the evaluate() of one or more E1 checks (harness development aid).

usage: tools/tryops.py C01,C06,C07 <src>[,<src>...] <op>[+<op>...] [<op>[+<op>...] ...]
       tools/tryops.py C01 T:3 @tier3          every op of exactly tier 3 at depth 1
       tools/tryops.py C01 T:3 @tier3+@tier1   every (tier-3 op, tier-1 op) pair
"""
import importlib
import itertools
import json
import sys

sys.path.insert(0, "/verif")
from mc import env  # noqa: F401,E402
from mc import ops as O  # noqa: E402
from mc.runner import pmap  # noqa: E402


def expand(spec):
    parts = spec.split("+")
    choices = []
    for p in parts:
        if p.startswith("@tier"):
            t = int(p[5:])
            choices.append([o.name for o in O.OPS.values() if o.tier == t])
        elif p == "@core0":
            choices.append(list(O.CORE0))
        elif p.startswith("@le"):
            t = int(p[3:])
            choices.append([o.name for o in O.OPS.values() if o.tier <= t])
        else:
            choices.append([p])
    return [list(c) for c in itertools.product(*choices)]


def main():
    props = sys.argv[1].upper().split(",")
    srcs = sys.argv[2].split(",")
    progs = []
    for spec in sys.argv[3:]:
        progs += expand(spec)
    rc = 0
    for prop in props:
        mod = importlib.import_module(f"checks.{prop.lower()}")
        import os
        extra = json.loads(os.environ.get("TRY_EXTRA", "{}"))  # e.g. TRY_EXTRA='{"method": "disk"}' for C09
        cases = [{"src": s, "ops": p, **extra} for s in srcs for p in progs]
        res = pmap(mod.evaluate, cases, chunk=max(1, len(cases) // 64))
        counts = {}
        for case, r in res:
            st = r.get("status")
            counts[st] = counts.get(st, 0) + 1
            if st in ("viol", "harness_error"):
                rc = 1
                for v in r.get("viols", []) or [{"kind": "harness_error", "detail": r["info"]}]:
                    print(f"{prop} {case['src']} {'+'.join(case['ops'])}: {v['kind']} :: {str(v.get('detail'))[:300]}")
            elif st in ("rejected", "inapplicable") and len(cases) <= 400:
                print(f"{prop} {case['src']} {'+'.join(case['ops'])}: {st} {str(r.get('info', {}).get('why'))[:160]}")
        print(f"[{prop}] {len(cases)} programs: {counts}")
    sys.exit(rc)


if __name__ == "__main__":
    main()
