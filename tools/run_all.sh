#!/bin/bash
# usage: tools/run_all.sh [tier] [ids...]   runs checks sequentially, logs under /verif/scratch/logs
cd /verif
tier=${1:-quick}; shift
ids=${@:-$(python3 -c "import json;print(' '.join(c['property_id'] for c in json.load(open('MANIFEST.json'))['checks']))")}
mkdir -p scratch/logs
for id in $ids; do
  s=$(date +%s)
  ./check $id --tier $tier > scratch/logs/$id.$tier.log 2>&1
  rc=$?
  e=$(( $(date +%s) - s ))
  echo "$id rc=$rc ${e}s $(grep -c '^VIOLATION' scratch/logs/$id.$tier.log) violations $(grep -c '^KNOWN-FINDING' scratch/logs/$id.$tier.log) known | $(tail -1 scratch/logs/$id.$tier.log | cut -c1-220)"
done
