#!/bin/bash
# usage: tools/confirm_only.sh <out.txt> <seed>...   demo on clean tree (/repo), demo on patched worktree, pinned suite on patched worktree
out=$1; shift
for seed in "$@"; do
  src=/verif/seeded/$seed
  patch=patch.diff; [ -f $src/patch_head.diff ] && patch=patch_head.diff
  wt=/tmp/seedchk/$seed
  rm -rf $wt; git -C /repo worktree prune
  git -C /repo worktree add -q --detach $wt HEAD || { echo "$seed worktree failed" >> $out; continue; }
  ( cd $wt && git apply $src/$patch ) || { echo "$seed PATCH DOES NOT APPLY" >> $out; git -C /repo worktree remove --force $wt; continue; }
  ( cd /repo && timeout 900 /venv/bin/python -W ignore $src/demo.py > /tmp/seedchk/$seed.clean.log 2>&1 ); c=$?
  ( cd $wt && timeout 900 /venv/bin/python -W ignore $src/demo.py > /tmp/seedchk/$seed.patched.log 2>&1 ); p=$?
  s=$(/verif/tools/baseline.py $wt | tail -1)
  echo "$seed head=$(git -C /repo rev-parse --short HEAD) demo_clean_exit=$c demo_patched_exit=$p suite: $s" >> $out
  git -C /repo worktree remove --force $wt
done
echo ALLDONE >> $out
