#!/usr/bin/env python3
"""usage: tools/addfixed.py <property> <commit> <what failed>   appends a 'fixed:' line to known_findings.json"""
import json, sys
p = "/verif/known_findings.json"
d = json.load(open(p))
line = f"fixed: property={sys.argv[1]} {sys.argv[2]} {sys.argv[3]}"
if line not in d["fixed"]:
    d["fixed"].append(line)
json.dump(d, open(p, "w"), indent=1)
print(line)
