#!/bin/bash
# usage: tools/seedtest.sh <dir with patch.diff demo.py meta.json> <check id>... [--no-suite]
# Confirms a seeded change (applies to clean HEAD, demo passes/fails, pinned suite unchanged) and runs checks against it.
src=$1; shift
name=$(basename $src)
wt=/tmp/seedchk/$name
suite=1
checks=()
for a in "$@"; do if [ "$a" == "--no-suite" ]; then suite=0; else checks+=($a); fi; done
rm -rf $wt; git -C /repo worktree prune
git -C /repo worktree add -q --detach $wt ${BASE:-HEAD} || exit 2
( cd $wt && git apply $src/${PATCH:-patch.diff} ) || { echo "PATCH DOES NOT APPLY"; git -C /repo worktree remove --force $wt; exit 2; }
echo "== demo on clean tree:"; ( cd ${CLEAN:-/repo} && timeout 600 /venv/bin/python -W ignore $src/demo.py 2>&1 | tail -3; echo "exit=${PIPESTATUS[0]}" )
echo "== demo on patched:";      ( cd $wt && timeout 600 /venv/bin/python -W ignore $src/demo.py 2>&1 | tail -3; echo "exit=${PIPESTATUS[0]}" )
if [ $suite == 1 ]; then echo "== pinned suite on patched tree:"; /verif/tools/baseline.py $wt | tail -3; fi
for c in "${checks[@]}"; do
  echo "== check $c (quick) against patched tree:"
  ( cd /verif && VERIF_REPO=$wt VERIF_EVIDENCE_DIR=/tmp/seedchk/evidence_$name ./check $c --tier quick > /tmp/seedchk/$name.$c.log 2>&1; echo "rc=$?"; grep -c "^VIOLATION" /tmp/seedchk/$name.$c.log; grep -A2 "^VIOLATION" /tmp/seedchk/$name.$c.log | head -12 | cut -c1-260; tail -1 /tmp/seedchk/$name.$c.log | cut -c1-300 )
done
git -C /repo worktree remove --force $wt
