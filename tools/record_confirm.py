#!/usr/bin/env python3
"""Record my own confirmation runs (tools/confirm_only.sh / tools/seedtest.sh output) in seeded/<id>/meta.json."""
import json, os, re, sys
lines = [l.strip() for l in open(sys.argv[1]) if l.startswith("S")]
for l in lines:
    seed = l.split()[0]
    p = f"/verif/seeded/{seed}/meta.json"
    if not os.path.exists(p):
        continue
    m = json.load(open(p))
    m["confirmed_by_me"] = {
        "how": "tools/confirm_only.sh: scratch worktree of /repo HEAD + patch.diff; demo.py run in /repo (clean) and in the worktree (changed); pinned suite (tools/baseline.py vs /root/.vp/BASELINE.json stable_pass) in the worktree",
        "result": l,
    }
    json.dump(m, open(p, "w"), indent=1)
    print("recorded", seed)
