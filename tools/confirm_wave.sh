#!/bin/bash
# usage: tools/confirm_wave.sh <outdir> <seed>:<check>[,<check>] ...   (seedtest.sh for each, sequentially)
out=$1; shift
mkdir -p $out
for spec in "$@"; do
  seed=${spec%%:*}; checks=${spec#*:}
  VERIF_NPROC=${VERIF_NPROC:-12} /verif/tools/seedtest.sh /verif/seeded/$seed ${checks//,/ } > $out/$seed.txt 2>&1
  echo "$seed done $(date +%T)" >> $out/progress.txt
done
echo ALLDONE >> $out/progress.txt
