#!/usr/bin/env python3
"""Generate MANIFEST.json from the table below (kept in one place so it stays valid)."""
import json, os
V = "/verif"
CHECKS = {
 "C01": ("E1 program-space BFS, optimised vs unoptimised lowering at every stage", "§4 C01"),
 "C02": ("E2 exhaustive partition-layout enumeration vs pandas reference", "§4 C02"),
 "C03": ("exhaustive predicate-tree enumeration over the full 3-valued valuation table + crossing/join legality tables", "§4 C03"),
 "C04": ("E1 BFS with exhaustive column selections and widening metamorphosis", "§4 C04"),
 "C05": ("E3 exhaustive/sleep-set schedule exploration of real task graphs with mutation monitors", "§4 C05"),
 "C06": ("E1 BFS + plan walker: every user-visible node's partitions vs declared npartitions/divisions/lengths", "§4 C06"),
 "C07": ("E1 BFS + plan walker: declared meta vs every computed partition", "§4 C07"),
 "C08": ("E1 BFS: name->structure function check over all nodes, operand variation, 4 hash-seed interpreters", "§4 C08"),
 "C09": ("E1 BFS: closure/acyclicity/uniqueness/serialisability analysis of every stage graph", "§4 C09"),
 "C10": ("E5 full configuration grids over algorithm-selection thresholds", "§4 C10"),
 "C11": ("exhaustive partition index sets / head-tail parameters per source kind", "§4 C11"),
 "C12": ("E5 exhaustive (n_in, n_out, max_branch, method, key kind, output subset) grid", "§4 C12"),
 "C13": ("exhaustive (old divisions, new divisions, force) pairs over a small ordered domain + count/size/freq grids", "§4 C13"),
 "C14": ("E1 BFS: fused vs unfused plan, partition by partition", "§4 C14"),
 "C15": ("E4 BFS over session histories replayed in pristine forked children", "§4 C15"),
 "C16": ("E1 x E4: pickle in one pristine child, load + compute in another", "§4 C16"),
 "C17": ("E1 BFS x every cut point x cut kind", "§4 C17"),
 "C18": ("E5 x predicate trees: parquet datasets x readers x push-down", "§4 C18"),
 "C19": ("E1 BFS with rewrite-step counters, repeated/nested optimize, 4 hash-seed interpreters", "§4 C19"),
}
TEXT = {
 "C01": "every program of the typed alphabet up to the depth plan is executed unoptimised and at each optimiser stage on the real code; exhaustive within the bound, so a rule misfiring in any reachable parent/child/sibling context is seen",
}
built = sorted(f[:-3].upper() for f in os.listdir(f"{V}/checks") if f.startswith("c") and f[1:3].isdigit() and f.endswith(".py"))
na_reasons = json.load(open(f"{V}/tools/not_applicable.json")) if os.path.exists(f"{V}/tools/not_applicable.json") else {}
# thorough commands are registered only for checks whose thorough tier was run to completion, silently, on the current tree
thorough_ok = set(json.load(open(f"{V}/tools/thorough_ok.json"))) if os.path.exists(f"{V}/tools/thorough_ok.json") else set()
checks = []
for pid in built:
    if pid in na_reasons:
        continue
    tech, ref = CHECKS[pid]
    checks.append({
        "property_id": pid,
        "quick_cmd": f"./check {pid} --tier quick",
        **({"thorough_cmd": f"./check {pid} --tier thorough"} if pid in thorough_ok else {}),
        "evidence_file": f"/verif/evidence/{pid}.json",
        "replay_cmd_template": f"./check {pid} --replay {{path}}",
        "engine": "mc",
        "level_claimed": {"category": "model_checking",
                          "text": TEXT.get(pid, "bounded exhaustive exploration of the implementation itself: every element of the stated finite space is built and run on the real dask_expr code and checked against a few-line reference; silence means no element of that space violates the property"),
                          "design_ref": f"DESIGN.md {ref}"},
        "level_note": "trusted: pandas/dask task functions as reference semantics, the harness comparator typing (mc/ops.py), the fixed tables (mc/tables.py); nothing outside the enumerated bounds is claimed",
        "technique": "explicit-state / stateless model checking of the implementation: " + tech,
    })
na = [{"property_id": p, "reason": na_reasons.get(p, "check not built yet in this session (no claim made)")} for p in sorted(CHECKS) if p not in {c["property_id"] for c in checks}]
m = {
 "version": 1,
 "setup_cmd": "cd /verif && /venv/bin/python -m compileall -q mc checks >/dev/null && /venv/bin/python -c \"import sys; sys.path.insert(0,'/verif'); from mc import env, core, ops, runner, explore, structkey\"",
 "hooks": {"guard": "DASK_EXPR_VERIF", "enable": "no source hooks: all instrumentation is applied from the harness at run time (wrappers installed in the forked children); the variable is exported by ./check for completeness",
           "baseline_off_cmd": "cd /repo && /venv/bin/python -m pytest -ra -q -p no:cacheprovider --timeout=900 --continue-on-collection-errors",
           "source_commits": [], "add_only": True},
 "engines": [{"name": "mc", "path": "/verif/mc", "serves_properties": [c["property_id"] for c in checks],
              "kind_free_text": "hand-written explicit-state explorers for Python driving the real dask_expr code in forked children (program-space BFS, layout/configuration grids, schedule exploration, session-history BFS)"}],
 "checks": checks,
 "notes": "Known genuine defects that are not repaired are listed in /verif/known_findings.json; repaired ones are 'fix:' commits in /repo (also listed there under 'fixed').",
 "not_applicable": na,
}
json.dump(m, open(f"{V}/MANIFEST.json", "w"), indent=1)
print("checks:", [c["property_id"] for c in checks], "na:", [n["property_id"] for n in na])
