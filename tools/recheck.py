#!/venv/bin/python
"""Re-evaluate the minimal witnesses in /verif/replays/<ID>/ on the current tree."""
import glob, importlib, json, os, sys
sys.path.insert(0, "/verif")
from mc import env
from mc.runner import pmap
prop = sys.argv[1].upper()
mod = importlib.import_module(f"checks.{prop.lower()}")
reps = [json.load(open(f)) for f in sorted(glob.glob(f"/verif/replays/{prop}/*.json"))]
def ev(rep):
    return getattr(mod, rep.get("evaluate", "evaluate"))(rep["case"])
res = pmap(ev, reps, chunk=2)
still = 0
for rep, r in res:
    kinds = [v["kind"] for v in r.get("viols", [])]
    if kinds:
        still += 1
        print("STILL", rep["witness"], kinds, (r["viols"][0]["detail"] or "")[:160])
print(f"{still} of {len(reps)} witnesses still failing")
