#!/usr/bin/env python3
"""Stage selected hunks of /repo's working-tree diff and commit them.
usage: tools/commit_hunks.py list                      -> numbered hunks
       tools/commit_hunks.py commit "<message>" 0 3 5   -> git apply --cached those hunks, git commit"""
import subprocess, sys, tempfile, re
def hunks():
    d = subprocess.run(["git", "-C", "/repo", "diff", "-U3"], capture_output=True, text=True).stdout
    out = []
    for filediff in re.split(r"(?m)^(?=diff --git )", d):
        if not filediff.strip():
            continue
        parts = re.split(r"(?m)^(?=@@ )", filediff)
        header = parts[0]
        for h in parts[1:]:
            out.append((header, h))
    return out
hs = hunks()
if sys.argv[1] == "list":
    for i, (hd, h) in enumerate(hs):
        fn = re.search(r"^\+\+\+ b/(.*)$", hd, re.M).group(1)
        first = [l for l in h.splitlines() if l.startswith(("+", "-"))][:2]
        print(i, fn, h.splitlines()[0][:60], "|", " / ".join(x[:70] for x in first))
else:
    msg = sys.argv[2]
    idx = []
    for x in sys.argv[3:]:
        if x.startswith("~"):
            m = [i for i, (hd, h) in enumerate(hs) if x[1:] in h or x[1:] in hd.split("\n")[0]]
            assert m, x
            idx += m
        else:
            idx.append(int(x))
    idx = sorted(set(idx))
    byfile = {}
    for i in idx:
        hd, h = hs[i]
        byfile.setdefault(hd, []).append(h)
    patch = "".join(hd + "".join(v) for hd, v in byfile.items())
    with tempfile.NamedTemporaryFile("w", suffix=".diff", delete=False) as f:
        f.write(patch)
    subprocess.run(["git", "-C", "/repo", "apply", "--cached", "--recount", f.name], check=True)
    subprocess.run(["git", "-C", "/repo", "commit", "-q", "-m", msg], check=True)
    print(subprocess.run(["git", "-C", "/repo", "log", "--oneline", "-1"], capture_output=True, text=True).stdout)
