#!/usr/bin/env python3
"""Print a markdown table of what the last run of every check covered (from evidence/*.json)."""
import glob, json, os
rows = []
for f in sorted(glob.glob("/verif/evidence/C*.json")):
    d = json.load(open(f))
    c = d["coverage"]
    rows.append((d["property_id"], d["tier"], d["seed"], c.get("states"), c.get("transitions"), c.get("evaluations"), c.get("distinct_nontrivial"),
                 c.get("exhaustive"), d.get("violations"), c.get("known_findings_matched"), d["wall_s"]))
print("| id | tier | seed | states | transitions | evaluations | non-trivial | exhaustive | violations | known | wall s |")
print("|---|---|---|---|---|---|---|---|---|---|---|")
for r in rows:
    print("| " + " | ".join(str(x) for x in r) + " |")
