#!/bin/bash
cd /verif; tier=$1; shift; mkdir -p scratch/logs
for id in "$@"; do
  s=$(date +%s)
  ./check $id --tier $tier > scratch/logs/$id.$tier.log 2>&1
  rc=$?
  echo "$id rc=$rc $(( $(date +%s)-s ))s viol=$(grep -c '^VIOLATION' scratch/logs/$id.$tier.log) known=$(grep -c '^KNOWN-FINDING' scratch/logs/$id.$tier.log) anomalies=$(grep -c '^ANOMALY' scratch/logs/$id.$tier.log) $(date +%T)" >> scratch/logs/seqA.txt
done
echo SEQDONE >> scratch/logs/seqA.txt
