#!/bin/bash
# validate evidence + manifest against the schemas, list evidence tree ids
cd /verif
python3-vt - <<'PY'
import json, jsonschema, glob
s=json.load(open('/root/.vp/EVIDENCE.schema.json'))
for f in sorted(glob.glob('/verif/evidence/*.json')):
    d=json.load(open(f))
    try:
        jsonschema.validate(d, s); ok="valid"
    except Exception as e:
        ok="INVALID "+str(e)[:100]
    print(d["property_id"], d["tier"], "seed", d["seed"], "viol", d["violations"], "known", d["coverage"].get("known_findings_matched"), "exh", d["coverage"].get("exhaustive"), "head", (d["coverage"].get("tree") or {}).get("head","")[:7], "wall", d["wall_s"], ok)
jsonschema.validate(json.load(open('/verif/MANIFEST.json')), json.load(open('/root/.vp/MANIFEST.schema.json')))
print("manifest valid")
PY
