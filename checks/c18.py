"""C18 — parquet reads with pushed-down work equal reading everything into memory."""
import itertools
import os
import shutil
import tempfile

from mc import core, tables
from mc.core import compare, exc_kind, short, time_limit, CaseTimeout, run_parts
from mc.env import dask, pd, np

ID = "C18"
SCRATCH = None
NaN = float("nan")


def frame(n=12, variant="sorted"):
    i = list(range(n))
    f = [1.5, NaN, 2.0, -1.0, 0.0, NaN, 3.5, 2.0, 9.0, -4.0, 0.5, 7.0][:n]
    s = ["x", "y", None, "x", "z", "y", "w", None, "x", "z", "y", "v"][:n]
    b = [True, False, True, True, False, False, True, False, True, True, False, True][:n]
    t = pd.to_datetime(["2020-01-03", "2020-01-01", None, "2020-01-05", "2020-01-04", "2020-01-01", "2020-01-09", "2020-01-07",
                        "2020-01-03", "2020-01-08", "2020-01-06", "2020-01-02"][:n])
    j = [3, 1, 2, 1, 3, 2, 4, 4, 5, 1, 2, 6][:n]
    df = pd.DataFrame({"i": i, "j": j, "f": f, "s": s, "b": b, "t": t})
    if variant == "unsorted":
        df["i"] = [7, 3, 11, 0, 5, 9, 1, 10, 4, 8, 2, 6][:n]
    return df


DATASETS = {
    # name: (frame variant, cuts, index kind, writer)
    "one_file": ("sorted", [], "range", "pandas"),
    "four_files": ("sorted", [3, 6, 9], "range", "pandas"),
    "nine_files": ("sorted", [1, 2, 4, 5, 6, 8, 9, 11], "range", "pandas"),
    "unsorted_stats": ("unsorted", [3, 6, 9], "range", "pandas"),
    "named_index": ("sorted", [4, 8], "named", "pandas"),
    "str_index": ("sorted", [4, 8], "str", "pandas"),
    "no_index": ("sorted", [4, 8], "none", "pandas"),
    "dask_written": ("sorted", [4, 8], "named", "dask"),
    "dask_written_meta": ("sorted", [3, 6, 9], "range", "dask_meta"),
    "two_files_overlap": ("unsorted", [6], "named", "pandas"),
}


def dataset_frame(name):
    variant, cuts, idx, writer = DATASETS[name]
    df = frame(variant=variant)
    if idx == "named":
        df.index = pd.Index(range(100, 100 + len(df)), name="idx")
    elif idx == "str":
        df.index = pd.Index(list("abcdefghijkl"), name="key")
    return df


def write_all(root):
    import dask_expr as dx

    for name, (variant, cuts, idx, writer) in DATASETS.items():
        d = os.path.join(root, name)
        df = dataset_frame(name)
        if writer == "pandas":
            os.makedirs(d)
            for k, part in enumerate(tables.cut(df, cuts)):
                part.to_parquet(os.path.join(d, f"part.{k}.parquet"), index=(idx != "none"))
        else:
            x = tables.from_parts(tables.cut(df, cuts), [df.index[e] for e in [0] + cuts] + [df.index[-1]])
            x.to_parquet(d, write_metadata_file=(writer == "dask_meta"))


def setup():
    global SCRATCH
    SCRATCH = tempfile.mkdtemp(prefix="c18_")
    write_all(SCRATCH)


def teardown():
    if SCRATCH:
        shutil.rmtree(SCRATCH, ignore_errors=True)


def read(name, reader, **kw):
    import dask_expr as dx

    if reader == "arrow":
        kw["filesystem"] = "arrow"
    return dx.read_parquet(os.path.join(SCRATCH, name), **kw)


# ---- predicate atoms -------------------------------------------------------
ATOMS = {}
for col, vals in (("i", [4]), ("f", [2.0]), ("s", ["x"]), ("j", [2]), ("t", [pd.Timestamp("2020-01-04")]), ("b", [True])):
    for v in vals:
        for opname, fn in (("lt", lambda c, v: c < v), ("le", lambda c, v: c <= v), ("gt", lambda c, v: c > v), ("ge", lambda c, v: c >= v), ("eq", lambda c, v: c == v), ("ne", lambda c, v: c != v)):
            if col in ("s", "b") and opname in ("lt", "le", "gt", "ge"):
                continue
            ATOMS[f"{col}_{opname}"] = (lambda col, v, fn: lambda x: fn(x[col], v))(col, v, fn)
        # reversed operand order
        ATOMS[f"{col}_rlt"] = (lambda col, v: lambda x: v < x[col])(col, v) if col not in ("s", "b") else None
ATOMS = {k: v for k, v in ATOMS.items() if v is not None}
ATOMS["s_isin"] = lambda x: x["s"].isin(["x", "z"])
ATOMS["i_isin"] = lambda x: x["i"].isin([1, 5, 9])
ATOMS["f_isna"] = lambda x: x["f"].isna()
ATOMS["s_notnull"] = lambda x: x["s"].notnull()
ATOMS["not_i_gt"] = lambda x: ~(x["i"] > 4)
ATOMS["i_vs_j"] = lambda x: x["i"] > x["j"]


def pred(x, p):
    """p = atom name | ["and"|"or", p, p]"""
    if isinstance(p, str):
        return ATOMS[p](x)
    l, r = pred(x, p[1]), pred(x, p[2])
    return (l & r) if p[0] == "and" else (l | r)


PROJS = [None, ["i"], ["f", "s"], ["s", "i", "f"], "f", ["j", "j"]]


def evaluate(case):
    try:
        with time_limit(120):
            m = case["mode"]
            if m == "query":
                return eval_query(case)
            if m == "roundtrip":
                return eval_roundtrip(case)
            if m == "structure":
                return eval_structure(case)
            if m == "overwrite":
                return eval_overwrite(case)
            raise ValueError(m)
    except CaseTimeout as e:
        return {"status": "viol", "viols": [{"kind": "timeout", "detail": str(e)}], "info": {}}


def _reader_kw(case):
    kw = {}
    if case.get("calc_div"):
        kw["calculate_divisions"] = True
    if case.get("index") is not None:
        kw["index"] = case["index"]
    if case.get("filters"):
        kw["filters"] = [tuple(f) for f in case["filters"]]
    return kw


def _apply(x, case, pandas):
    y = x
    if case.get("pred") is not None:
        y = y[pred(y, case["pred"])]
    proj = case.get("proj")
    if proj is not None:
        y = y[proj]
    if case.get("parent") == "add":
        if getattr(y, "ndim", 1) == 2:
            num = [c for c in list(y.columns) if c in ("i", "j", "f")]
            y = (y[num] + 1) if num else y
        elif y.name in ("i", "j", "f"):
            y = y + 1
    elif case.get("parent") == "len" and not pandas:
        pass
    return y


def _user_filter_pandas(full, filters):
    m = pd.Series(True, index=full.index)
    for col, op, val in filters:
        c = full[col] if col in full.columns else full.index.to_series()
        m &= {"<": lambda: c < val, "<=": lambda: c <= val, ">": lambda: c > val, ">=": lambda: c >= val, "==": lambda: c == val,
              # reader-side semantics: a comparison with a missing value is never true
              "!=": lambda: (c != val) & c.notna(), "in": lambda: c.isin(val)}[op]()
    return full[m]


def eval_query(case):
    viols, info = [], {}
    name, reader = case["ds"], case["reader"]
    kw = _reader_kw(case)
    try:
        base = read(name, reader, **{k: v for k, v in kw.items() if k != "filters"})
        full = core.run(base.expr.lower_completely(), lower=False)  # everything in memory, nothing pushed
    except CaseTimeout:
        raise
    except Exception as e:  # noqa: BLE001
        return {"status": "inapplicable", "viols": [], "info": {"why": "plain read: " + short(e)}}
    try:
        ref_in = _user_filter_pandas(full, kw["filters"]) if "filters" in kw else full
        exp = _apply(ref_in, case, True)
    except Exception as e:  # noqa: BLE001
        return {"status": "inapplicable", "viols": [], "info": {"why": "pandas: " + short(e)}}
    try:
        x = read(name, reader, **kw)
        q = _apply(x, case, False)
    except CaseTimeout:
        raise
    except Exception as e:  # noqa: BLE001
        return {"status": "rejected", "viols": [], "info": {"why": short(e)}}
    from mc.structkey import ekey

    sel = case.get("partitions")
    try:
        if sel is not None:
            allparts = run_parts(q.expr.lower_completely(), lower=False)
            if max(sel) >= len(allparts):
                return {"status": "rejected", "viols": [], "info": {"why": "partition index out of range"}}
            exp = core._concat([allparts[i] for i in sel])
            q = q.partitions[sel]
        opt = q.optimize(fuse=case.get("fuse", True))
        got = core.run(opt.expr)
    except CaseTimeout:
        raise
    except Exception as e:  # noqa: BLE001
        return {"status": "viol", "viols": [{"kind": "raises:" + exc_kind(e), "detail": short(e)}], "info": info}
    r = compare(exp, got, ordered=True, labelled=True)
    if r:
        viols.append({"kind": f"{reader}:pushdown_differs:{r.split(' ')[0]}", "detail": r})
    if case.get("parent") == "len":
        try:
            n = len(q)
            if n != len(exp):
                viols.append({"kind": f"{reader}:len", "detail": f"len() = {n}, rows = {len(exp)}"})
        except CaseTimeout:
            raise
        except Exception as e:  # noqa: BLE001
            viols.append({"kind": f"{reader}:len_raises:" + exc_kind(e), "detail": short(e)})
    info["nontrivial"] = ekey(opt.expr.lower_completely()) != ekey(q.expr.lower_completely())
    return {"status": "viol" if viols else "ok", "viols": viols, "info": info}


def eval_structure(case):
    """Divisions / npartitions truthful before and after fusion; read equals what was written."""
    viols, info = [], {}
    name, reader = case["ds"], case["reader"]
    kw = _reader_kw(case)
    written = dataset_frame(name)
    try:
        x = read(name, reader, **kw)
    except CaseTimeout:
        raise
    except Exception as e:  # noqa: BLE001
        return {"status": "inapplicable", "viols": [], "info": {"why": short(e)}}
    variants = {"plain": x, "proj_add": x[["i", "f"]] + 1, "proj": x[["j"]], "filter": x[x["j"] > 1]}
    from mc import walker

    for label, q in variants.items():
        for fuse in (False, True):
            try:
                plan = q.optimize(fuse=fuse).expr.lower_completely()
                parts = run_parts(plan, lower=False)
            except CaseTimeout:
                raise
            except Exception as e:  # noqa: BLE001
                viols.append({"kind": f"{reader}:raises:" + exc_kind(e), "detail": f"{label} fuse={fuse}: {short(e)}"})
                continue
            probs = walker.check_structure(plan, parts, None if len(parts) == plan.npartitions else f"{len(parts)} partitions computed, {plan.npartitions} reported")
            for p in probs:
                viols.append({"kind": f"{reader}:structure:{p.split(':')[0].split(' ')[0]}", "detail": f"{label} fuse={fuse}: {p}"})
            if label == "plain":
                got = core._concat(parts)
                if DATASETS[name][2] == "none":
                    w = written.reset_index(drop=True)
                    r = compare(w, got, ordered=True, labelled=False)
                else:
                    r = compare(tables.dask_dtypes(written), got, ordered=True, labelled=True)
                if r:
                    viols.append({"kind": f"{reader}:read_differs_from_written:{r.split(' ')[0]}", "detail": f"fuse={fuse}: {r}"})
    info["nontrivial"] = True
    uniq = {}
    for v in viols:
        uniq.setdefault(v["kind"], v)
    return {"status": "viol" if uniq else "ok", "viols": list(uniq.values()), "info": info}


def eval_roundtrip(case):
    """to_parquet -> read_parquet of a computed collection."""
    from mc import ops as O

    viols, info = [], {}
    d = tempfile.mkdtemp(prefix="c18rt_")
    try:
        try:
            q = O.build(tables.source(case["src"]), case["ops"])
            if O.kind_of(q) != "df":
                return {"status": "rejected", "viols": [], "info": {"why": "not a frame"}}
            exp = q.compute(scheduler="sync")
        except CaseTimeout:
            raise
        except Exception as e:  # noqa: BLE001
            return {"status": "rejected", "viols": [], "info": {"why": short(e)}}
        if not all(isinstance(c, str) for c in exp.columns) or exp.columns.duplicated().any():
            return {"status": "rejected", "viols": [], "info": {"why": "column labels not writable"}}
        path = os.path.join(d, "out")
        try:
            q.to_parquet(path, compute_kwargs={"scheduler": "sync"})
        except CaseTimeout:
            raise
        except Exception as e:  # noqa: BLE001
            return {"status": "inapplicable", "viols": [], "info": {"why": "write refused: " + short(e)}}
        import dask_expr as dx

        typ = O.typing_of(case["ops"])
        for reader in ("fsspec", "arrow"):
            try:
                back = dx.read_parquet(path, **({"filesystem": "arrow"} if reader == "arrow" else {}), calculate_divisions=case.get("calc_div", False))
                got = core.run(back.optimize().expr)
            except CaseTimeout:
                raise
            except Exception as e:  # noqa: BLE001
                viols.append({"kind": f"{reader}:roundtrip_raises:" + exc_kind(e), "detail": short(e)})
                continue
            r = compare(exp, got, ordered=typ.ordered and typ.defined, labelled=typ.labelled and typ.defined, check_kinds=False)
            if r:
                viols.append({"kind": f"{reader}:roundtrip_differs:{r.split(' ')[0]}", "detail": r})
            if case.get("calc_div") and back.known_divisions:
                from mc import walker

                plan = back.optimize(fuse=False).expr.lower_completely()
                for p in walker.check_structure(plan, run_parts(plan, lower=False), None):
                    viols.append({"kind": f"{reader}:roundtrip_divisions", "detail": p})
        info["nontrivial"] = True
    finally:
        shutil.rmtree(d, ignore_errors=True)
    uniq = {}
    for v in viols:
        uniq.setdefault(v["kind"], v)
    return {"status": "viol" if uniq else "ok", "viols": list(uniq.values()), "info": info}


def eval_overwrite(case):
    """Overwriting a dataset the same query still reads must be refused."""
    import dask_expr as dx

    viols = []
    d = tempfile.mkdtemp(prefix="c18ow_")
    try:
        path = os.path.join(d, "ds")
        dx.from_pandas(frame(), npartitions=3).to_parquet(path)
        kw = {"filesystem": "arrow"} if case["reader"] == "arrow" else {}
        x = dx.read_parquet(path, **kw)
        y = {"plain": x, "derived": x[x["i"] > 2][["i", "f"]], "deep": (x[["i"]] + 1).repartition(npartitions=1)}[case["shape"]]
        try:
            y.to_parquet(path, overwrite=True)
            after = dx.read_parquet(path, **kw).compute(scheduler="sync")
            viols.append({"kind": f"{case['reader']}:overwrite_not_refused", "detail": f"{case['shape']}: wrote over its own input; {len(after)} rows now"})
        except ValueError:
            pass
        except CaseTimeout:
            raise
        except Exception as e:  # noqa: BLE001
            viols.append({"kind": f"{case['reader']}:overwrite_wrong_error:" + exc_kind(e), "detail": short(e)})
        # overwriting an unrelated query's dataset must work and be visible afterwards
        other = os.path.join(d, "other")
        dx.from_pandas(frame(), npartitions=2).to_parquet(other)
        before = dx.read_parquet(other, **kw).compute(scheduler="sync")
        new = frame().assign(i=lambda df: df["i"] * 100).iloc[:7]
        dx.from_pandas(new, npartitions=2).to_parquet(other, overwrite=True)
        after = dx.read_parquet(other, **kw).compute(scheduler="sync")
        r = compare(tables.dask_dtypes(new), after, ordered=True, labelled=True, check_kinds=False)
        if r:
            viols.append({"kind": f"{case['reader']}:reread_after_overwrite:{r.split(' ')[0]}", "detail": r})
    finally:
        shutil.rmtree(d, ignore_errors=True)
    return {"status": "viol" if viols else "ok", "viols": viols, "info": {"nontrivial": True}}


def key(case):
    return case["mode"] + "|" + ",".join(f"{k}={case[k]}" for k in sorted(case) if k != "mode" and case[k] is not None)


def shrink(case):
    if case["mode"] != "query":
        return
    if isinstance(case.get("pred"), list):
        yield dict(case, pred=case["pred"][1])
        yield dict(case, pred=case["pred"][2])
    for fld in ("proj", "parent", "partitions", "filters", "calc_div", "index"):
        if case.get(fld):
            c = dict(case)
            c[fld] = None
            yield c
    if case["ds"] != "four_files":
        yield dict(case, ds="four_files")
    if case.get("fuse", True):
        yield dict(case, fuse=False)


def run(ctx):
    quick = ctx.tier == "quick"
    setup()
    try:
        atoms = list(ATOMS)
        preds = [None] + atoms
        conn_atoms = ["i_gt", "f_le", "s_eq", "s_ne", "f_ne", "j_eq", "i_isin", "f_isna", "t_ge"] if quick else atoms
        for op in ("and", "or"):
            for a, b in itertools.combinations(conn_atoms, 2):
                preds.append([op, a, b])
        if not quick:
            for op1, op2 in itertools.product(("and", "or"), repeat=2):
                for a, b, c in itertools.combinations(["i_gt", "f_le", "s_ne", "j_eq", "f_isna"], 3):
                    preds.append([op1, [op2, a, b], c])
        cases = []
        dsets = ["four_files", "unsorted_stats", "named_index", "dask_written"] if quick else list(DATASETS)
        for ds in dsets:
            for reader in ("fsspec", "arrow"):
                for p in preds:
                    for proj in ([None, ["f", "s"]] if quick else [None, ["i"], ["f", "s"], "f"]):
                        cases.append({"mode": "query", "ds": ds, "reader": reader, "pred": p, "proj": proj})
                for proj in PROJS:
                    for parent in (None, "add", "len"):
                        for cd in (False, True):
                            cases.append({"mode": "query", "ds": ds, "reader": reader, "pred": None, "proj": proj, "parent": parent, "calc_div": cd})
                            cases.append({"mode": "query", "ds": ds, "reader": reader, "pred": "i_gt", "proj": proj, "parent": parent, "calc_div": cd, "fuse": False})
                for sel in ([0], [1], [2, 0], [0, 1], [1, 2]):
                    for p in (None, "j_eq", "f_ne"):
                        for parent in (None, "add"):
                            cases.append({"mode": "query", "ds": ds, "reader": reader, "pred": p, "proj": ["i", "f"], "partitions": sel, "parent": parent})
                for flt in ([["i", ">", 3]], [["j", "==", 2]], [["j", "!=", 2]], [["i", "in", [1, 2, 7]]], [["f", "<=", 2.0], ["i", "<", 9]]):
                    for p in (None, "f_gt", "s_eq", "i_le"):
                        cases.append({"mode": "query", "ds": ds, "reader": reader, "pred": p, "proj": None, "filters": flt})
                    # metadata short-cuts (len / size) on top of user filters, projections and elementwise parents
                    for proj in (None, ["i", "f"], "f"):
                        for cd in (False, True):
                            cases.append({"mode": "query", "ds": ds, "reader": reader, "pred": None, "proj": proj, "filters": flt, "parent": "len", "calc_div": cd})
                if DATASETS[ds][2] in ("named", "range"):
                    cases.append({"mode": "query", "ds": ds, "reader": reader, "pred": "f_gt", "proj": ["f"], "index": "i"})
                    cases.append({"mode": "query", "ds": ds, "reader": reader, "pred": None, "proj": None, "index": False})
        for ds in DATASETS:
            for reader in ("fsspec", "arrow"):
                for cd in (False, True):
                    cases.append({"mode": "structure", "ds": ds, "reader": reader, "calc_div": cd})
        from mc import ops as O

        rt_ops = [o.name for o in O.alphabet(2 if not quick else 1) if o.inp in ("df", "any")]
        for name in rt_ops:
            for cd in (False, True):
                cases.append({"mode": "roundtrip", "src": "T:3", "ops": [name], "calc_div": cd})
        for reader in ("fsspec", "arrow"):
            for shape in ("plain", "derived", "deep"):
                cases.append({"mode": "overwrite", "reader": reader, "shape": shape})
        ctx.rule = (f"{len(dsets)} datasets (1..9 files, sorted / unsorted / overlapping statistics, range / named / string / absent index, written by pandas and by to_parquet with "
                    f"and without _metadata) x both readers x {len(preds)} predicates (every comparison operator in both operand orders on int / float-with-NaN / string-with-null "
                    "/ datetime / bool columns, isin, isna, negation, column-vs-column, and ALL and/or pairs" + ("" if quick else " and triples") + ") x projections x calculate_divisions x "
                    "index= x user filters= x partition subsets x parents that trigger multi-file fusion x len(); oracle = the same operations in pandas on the dataset read "
                    "unoptimised with nothing pushed; plus structure truthfulness before/after fusion, write->read round trips of E1 depth-1 programs with both readers, and "
                    "overwrite refusal; non-trivial = the optimiser changed the plan")
        res = ctx.map(evaluate, cases, chunk=24)
        ctx.states = len(cases)
        ctx.transitions = len(cases)
        for case, r in res:
            if r.get("info", {}).get("nontrivial"):
                ctx.nontrivial += 1
        for c in (cases[7], cases[len(cases) // 2], cases[-1]):
            ctx.sample(key(c))
        ctx.cov["predicates"] = len(preds)
        ctx.assumptions += ["datasets are written with pandas/pyarrow directly unless the writer itself is under test", "remote filesystems are unreachable"]
        return ctx.finish(evaluate, shrink, key)
    finally:
        teardown()
