"""Shared evaluator for the plan-walking properties C06 (partition structure)
and C07 (schema)."""
from mc import core, explore, ops as O, tables, walker
from mc.core import STAGES, exc_kind, optimize_until, short, time_limit, CaseTimeout, assemble
from mc.env import dask, pd, np
from mc.structkey import ekey

WALK_STAGES = ["unoptimised", "simplified-logical", "simplified-physical", "fused"]


def evaluate(case, oracle):
    try:
        with time_limit(90):
            return _evaluate(case, oracle)
    except CaseTimeout as e:
        return {"status": "viol", "viols": [{"kind": "timeout", "detail": str(e)}], "info": {}}


def _same_sig(a, b):
    """Same container, labels, names; dtype kinds equal up to missing-value promotion."""
    if a[0] != b[0] or len(a[1]) != len(b[1]):
        return False
    return all(core.kinds_compatible(x, y) for x, y in zip(a[1], b[1]))


def _cls(node):
    return type(node).__name__


def _evaluate(case, oracle):
    info, viols = {}, []
    try:
        src = tables.source(case["src"])
        q = O.build(src, case["ops"])
        expr = q.expr
        info["kind"] = O.kind_of(q)
        info["skey"] = ekey(expr)
    except CaseTimeout:
        raise
    except Exception as e:  # noqa: BLE001
        return {"status": "rejected", "viols": [], "info": {"why": short(e)}}
    nodes_checked = 0
    seen_plans = set()
    declared = None
    # user-visible nodes: the lowering of every logical (sub-)expression of the logical,
    # simplified and tuned plans.  Helper nodes created inside _lower (chunks, overlap
    # tuples, partitioning assignments) carry payloads that are not collections.
    visible = set()
    # programs that continue from an already optimised collection contain physical helper nodes
    # in their logical plan: only their top nodes are examined
    nested = any("nested" in O.OPS[o].tags for o in case["ops"])
    for st in () if nested else ("logical", "simplified-logical", "tuned-logical"):
        try:
            lp = optimize_until(expr, st)
            for L in lp.walk():
                try:
                    visible.add(L.lower_completely()._name)
                except Exception:  # noqa: BLE001
                    pass
        except CaseTimeout:
            raise
        except Exception:  # noqa: BLE001
            pass
    with dask.config.set({"dataframe.shuffle.method": case.get("method", "tasks")}):
        for stage in WALK_STAGES:
            try:
                plan = expr.lower_completely() if stage == "unoptimised" else optimize_until(expr, stage).lower_completely()
                k = ekey(plan)
                if k in seen_plans:
                    continue
                seen_plans.add(k)
                cache = walker.run_keep_all(plan)
            except CaseTimeout:
                raise
            except Exception as e:  # noqa: BLE001
                if stage == "unoptimised":
                    return {"status": "inapplicable", "viols": [], "info": {"why": "ref: " + short(e), **info}}
                info.setdefault("plan_errors", []).append(f"{stage}:{exc_kind(e)}")
                continue
            top_parts = None
            for node in plan.walk():
                try:
                    meta = node._meta
                except Exception:  # noqa: BLE001
                    continue
                if node is not plan and node._name not in visible:
                    continue
                parts, perr = walker.node_parts(node, cache)
                nodes_checked += 1
                if node is plan:
                    top_parts = parts
                if oracle == "structure":
                    if not core.is_frame_like(meta):
                        if perr:
                            viols.append({"kind": f"npartitions@{_cls(node)}", "detail": f"{stage}: {perr}"})
                        continue
                    for p in walker.check_structure(node, parts, perr):
                        viols.append({"kind": f"{p.split(':')[0].split(' ')[0]}@{_cls(node)}", "detail": f"{stage}: {_cls(node)}: {p}"})
                else:
                    if parts is None:
                        continue
                    for i, part in enumerate(parts):
                        if not core.is_frame_like(meta) and not core.is_frame_like(part):
                            continue
                        r = walker.check_schema(meta, part, f"partition {i}")
                        if r:
                            viols.append({"kind": f"{r.split(': ')[1].split(' ')[0]}@{_cls(node)}", "detail": f"{stage}: {_cls(node)}: {r}"})
                            break
            # collection-level checks on the stage's top node
            if oracle == "schema":
                top = plan
                sig = (walker._names(top._meta), walker._kinds(top._meta))
                if declared is None:
                    declared = (stage, sig, walker._names(q._meta), walker._kinds(q._meta))
                    lsig = (declared[2], declared[3])
                    if not _same_sig(lsig, sig):
                        viols.append({"kind": "lowering_changes_declared_schema", "detail": f"{stage}: logical {lsig} lowered {sig}"})
                elif not _same_sig(sig, declared[1]):
                    viols.append({"kind": "optimisation_changes_declared_schema", "detail": f"{stage}: {sig} != {declared[0]}: {declared[1]}"})
                if top_parts is not None:
                    try:
                        full = assemble(top_parts, plan)
                        from dask_expr._collection import new_collection

                        coll = new_collection(plan)
                        want = {"DataFrame": "frame", "Series": "series", "Index": "index", "Scalar": "scalar"}.get(type(coll).__name__)
                        got = walker._names(full)[0]
                        if want != got:
                            viols.append({"kind": "collection_type", "detail": f"{stage}: collection {type(coll).__name__} computed {got}"})
                        else:
                            r = walker.check_schema(top._meta, full, "result")
                            if r:
                                viols.append({"kind": f"result_{r.split(': ')[1].split(' ')[0]}@{_cls(top)}", "detail": f"{stage}: {r}"})
                    except CaseTimeout:
                        raise
                    except Exception as e:  # noqa: BLE001
                        info.setdefault("plan_errors", []).append(f"assemble:{exc_kind(e)}")
        if oracle == "structure":
            viols.extend(_length_shortcuts(q, info))
    info["nodes"] = nodes_checked
    info["nontrivial"] = len(seen_plans) > 1
    uniq = {}
    for v in viols:
        uniq.setdefault(v["kind"], v)
    return {"status": "viol" if uniq else "ok", "viols": list(uniq.values()), "info": info}


def _length_shortcuts(q, info):
    """len()/size/Lengths answered from metadata vs counted data."""
    from dask_expr._collection import new_collection
    from dask_expr._expr import Lengths
    from dask_expr._reductions import Len

    out = []
    if O.kind_of(q) not in ("df", "s", "idx"):
        return out
    try:
        opt = q.optimize(fuse=False)
        parts = core.run_parts(opt.expr)
        true_lens = [len(p) for p in parts]
        total = sum(true_lens)
    except CaseTimeout:
        raise
    except Exception:  # noqa: BLE001
        return out
    try:
        n = core.run(optimize_until(Len(q.expr), "fused"))
        if int(n) != total:
            out.append({"kind": "len_shortcut", "detail": f"len() = {n}, computed rows = {total}"})
    except CaseTimeout:
        raise
    except Exception as e:  # noqa: BLE001
        out.append({"kind": "len_raises:" + exc_kind(e), "detail": short(e)})
    try:
        ls = optimize_until(Lengths(opt.expr), "fused")
        got = core.run(ls)
        got = tuple(int(x) for x in (got if isinstance(got, (tuple, list)) else list(got)))
        if tuple(true_lens) != got:
            out.append({"kind": "lengths_shortcut", "detail": f"Lengths = {got}, computed = {tuple(true_lens)}"})
    except CaseTimeout:
        raise
    except Exception as e:  # noqa: BLE001
        info.setdefault("plan_errors", []).append("lengths:" + exc_kind(e))
    if O.kind_of(q) == "df":
        try:
            sz = core.run(q.size.expr.optimize())
            ncols = len(q.columns)
            if int(sz) != total * ncols:
                out.append({"kind": "size_shortcut" + (":zero_columns" if ncols == 0 else ""), "detail": f"size = {sz}, rows*cols = {total * ncols}"})
        except CaseTimeout:
            raise
        except Exception as e:  # noqa: BLE001
            info.setdefault("plan_errors", []).append("size:" + exc_kind(e))
    return out


def run(ctx, oracle, rule):
    if ctx.tier == "quick":
        plan = [(["T:3"], [2, 2]), (["Td:3", "Tf:3", "Ts:2", "Tt:3", "Tg:3"], [2])] + explore.extra_stages("full")
    else:
        plan = [(["T:3"], [2, 2]), (["Td:3", "Tf:3", "Ts:2", "Tt:3", "Tg:3", "T:m0,5,5,9", "T:u4"], [2, 2]), (["T:3"], [1, 1, 1])]
    ctx.rule = rule
    total_nodes = 0
    for sources, tiers in plan:
        res = explore.bfs(ctx, evaluate, sources, tiers, args=(oracle,))
        for case, r in res:
            total_nodes += r.get("info", {}).get("nodes", 0)
            if r["status"] == "ok" and len(case["ops"]) == len(tiers):
                ctx.sample(explore.prog_key(case), cap=10)
    ctx.cov["plan_nodes_examined"] = total_nodes
    ctx.cov["plan"] = [list(p) for p in plan]
    return ctx.finish(evaluate, explore.shrink_prog, explore.prog_key, args=(oracle,))
