"""C11 — selecting partitions or leading/trailing rows commutes with the computation."""
import itertools
import os
import shutil
import tempfile

from mc import core, tables
from mc.core import compare, exc_kind, short, time_limit, CaseTimeout, run_parts
from mc.env import dask, pd, np

ID = "C11"
SCRATCH = None  # set by run() in the parent before forking


def base_pdf():
    n = 12
    return pd.DataFrame(
        {
            "k": [3, 1, 2, 1, 3, 2, 4, 4, 5, 1, 2, 6],
            "v": [1.0, 2.5, float("nan"), 4.0, 0.5, 2.5, -1.0, float("nan"), 3.0, 1.0, 6.5, 2.0],
            "w": [7, 3, 11, 0, 5, 9, 1, 10, 4, 8, 2, 6],
        }
    )


def write_files(d):
    """csv / parquet datasets written with pandas/pyarrow only (not the code under test)."""
    pdf = base_pdf()
    os.makedirs(os.path.join(d, "csv"), exist_ok=True)
    os.makedirs(os.path.join(d, "pq"), exist_ok=True)
    for i, part in enumerate(tables.cut(pdf, [3, 6, 9])):
        part.to_csv(os.path.join(d, "csv", f"part{i}.csv"), index=False)
        part.to_parquet(os.path.join(d, "pq", f"part.{i}.parquet"))


def _load(x):
    return x


def make_source(kind):
    import dask_expr as dx

    pdf = base_pdf()
    if kind == "from_pandas":
        return dx.from_pandas(pdf, npartitions=4)
    if kind == "from_pandas_unsorted":
        return dx.from_pandas(pdf, npartitions=4, sort=False)
    if kind == "from_map":
        return dx.from_map(_load, tables.cut(pdf, [3, 6, 9]), meta=pdf.iloc[:0])
    if kind == "from_map_divs":
        return dx.from_map(_load, tables.cut(pdf, [3, 6, 9]), meta=pdf.iloc[:0], divisions=(0, 3, 6, 9, 11))
    if kind == "from_array":
        return dx.from_array(pdf[["k", "v", "w"]].to_numpy(dtype="float64"), chunksize=3, columns=["k", "v", "w"])
    if kind == "from_delayed":
        from dask import delayed

        return dx.from_delayed([delayed(_load)(p) for p in tables.cut(pdf, [3, 6, 9])], meta=pdf.iloc[:0])
    if kind == "from_delayed_divs":
        from dask import delayed

        return dx.from_delayed([delayed(_load)(p) for p in tables.cut(pdf, [3, 6, 9])], meta=pdf.iloc[:0], divisions=(0, 3, 6, 9, 11))
    if kind == "from_graph":
        return (dx.from_pandas(pdf, npartitions=4) + 0).persist(scheduler="sync")
    if kind == "from_dict":
        return dx.from_dict(pdf.to_dict(orient="list"), npartitions=4)
    if kind == "read_csv":
        return dx.read_csv(os.path.join(SCRATCH, "csv", "part*.csv"))
    if kind == "read_parquet":
        return dx.read_parquet(os.path.join(SCRATCH, "pq"))
    if kind == "read_parquet_arrow":
        return dx.read_parquet(os.path.join(SCRATCH, "pq"), filesystem="arrow")
    if kind == "timeseries":
        from dask_expr.datasets import timeseries

        return timeseries(start="2000-01-01", end="2000-01-05", freq="8h", partition_freq="1d", dtypes={"k": int, "v": float, "w": int}, seed=1)
    if kind == "legacy":
        import dask.dataframe as dd  # noqa: F401

        return dx.from_legacy_dataframe(dx.from_pandas(pdf, npartitions=4).to_legacy_dataframe())
    raise ValueError(kind)


FILE_SOURCES = ("read_parquet", "read_parquet_arrow", "read_csv")
SOURCES = ["from_pandas", "from_pandas_unsorted", "from_map", "from_map_divs", "from_array", "from_delayed", "from_delayed_divs",
           "from_graph", "from_dict", "read_csv", "read_parquet", "read_parquet_arrow", "timeseries"]


def _small(x):
    import dask_expr as dx

    return dx.from_pandas(pd.DataFrame({"k": [1, 2, 3, 9], "z": [10, 20, 30, 90]}), npartitions=1)


CHAINS = {
    "none": lambda x: x,
    "ew": lambda x: x[["k", "w"]] * 2 + 1,
    "assign": lambda x: x.assign(z=x["k"] + x["w"]),
    "filter": lambda x: x[x["w"] > 3],
    "proj_filter": lambda x: x[x["k"] > 1][["v", "w"]],
    "proj_reorder": lambda x: x[["w", "k"]],
    "proj_reorder_ew": lambda x: x[["w", "v", "k"]] * 2,
    "bcast_scalar": lambda x: x["v"] - x["v"].mean(),
    "bcast_series": lambda x: x[["k", "w"]] + x[["k", "w"]].sum(),
    "map_partitions": lambda x: x.map_partitions(_mp),
    "fillna_astype": lambda x: x.fillna(0).astype({"k": "float64"}),
    "shuffle": lambda x: x.shuffle("k"),
    "shuffle_np2": lambda x: x.shuffle("k", npartitions=2),
    "shuffle_ew": lambda x: x.shuffle("k")[["k", "w"]] + 1,
    "bcast_join": lambda x: x.merge(_small(x), on="k", how="inner", broadcast=True),
    "bcast_join_left": lambda x: x.merge(_small(x), on="k", how="left", broadcast=True),
    "bcast_join2": lambda x: x.merge(_small2(x), on="k", how="inner", broadcast=True, shuffle_method="tasks"),
    "bcast_join2_left": lambda x: x.merge(_small2(x), on="k", how="left", broadcast=True, shuffle_method="tasks"),
    "sample": lambda x: x.sample(frac=0.5, random_state=7),
    "partition_info": lambda x: x.map_partitions(_mp_info, meta=x._meta.assign(pn=0)),
    "set_index_keep": lambda x: x.set_index("w", drop=False),
    "sorted_ignore_index": lambda x: x.sort_values("w", ignore_index=True),
    "sorted_nafirst": lambda x: x.sort_values(["v", "w"], na_position="first"),
    "hash_join": lambda x: x.merge(_small(x).repartition(npartitions=1), on="k", how="inner", broadcast=False, npartitions=3),
    "cumsum": lambda x: x[["k", "w"]].cumsum(),
    "shift": lambda x: x[["k", "w"]].shift(1),
    "sorted": lambda x: x.sort_values("w"),
    "set_index": lambda x: x.set_index("w"),
    "repartition": lambda x: x.repartition(npartitions=3),
    "ew_ew": lambda x: (x[["k", "w"]] + 1).assign(q=lambda d: d["k"] * 2) if False else (x[["k", "w"]] + 1) * (x[["k", "w"]] - 1),
    "reset_index": lambda x: x.reset_index(drop=True),
    "reset_index_keep": lambda x: x.reset_index(),
    "loc_late": lambda x: x.loc[4:9],
    "loc_late_ew": lambda x: x.loc[4:9][["k", "w"]] + 1,
    "loc_list": lambda x: x.loc[[4, 7, 10]],
    "random_split": lambda x: x.random_split([0.5, 0.5], random_state=3)[0],
    "random_split_shuffle": lambda x: x.random_split([0.4, 0.6], random_state=5, shuffle=True)[1],
    "index": lambda x: x.index,
    "series_ew": lambda x: (x["w"] + 1).rename("ww"),
    "concat": lambda x: _dxconcat([x[["k"]], x[["k"]] + 5]),
}


def _small2(x):
    import dask_expr as dx

    return dx.from_pandas(pd.DataFrame({"k": [1, 2, 3, 9, 4, 5], "z": [10, 20, 30, 90, 40, 50]}), npartitions=2)


def _mp_info(df, partition_info=None):
    return df.assign(pn=partition_info["number"] if partition_info else -1)


def _dxconcat(objs):
    import dask_expr as dx

    return dx.concat(objs)


def _mp(df):
    return df.assign(mp=df["w"] * 10)


def index_sets(p):
    out = []
    for i in range(p):
        out.append([i])
    for start, stop, step in itertools.product([None, 0, 1, -2], [None, 1, 2, p, -1], [None, 1, 2, -1]):
        idx = list(range(p))[slice(start, stop, step)]
        if idx and idx not in out:
            out.append(idx)
    for perm in itertools.permutations(range(min(p, 3)), 2):
        if list(perm) not in out:
            out.append(list(perm))
    out.append([0, 0])
    out.append([p - 1, 0, p - 1])
    if p >= 3:
        out.append([2, 1, 0])
    return out


def evaluate(case):
    try:
        with time_limit(120):
            return _evaluate(case)
    except CaseTimeout as e:
        return {"status": "viol", "viols": [{"kind": "timeout", "detail": str(e)}], "info": {}}


def _cmp_parts(a, b, ordered, labelled=True):
    return compare(a, b, ordered=ordered, labelled=labelled)


LABELLED = {"v": True}


def _evaluate(case):
    viols, info = [], {}
    ordered = case["chain"] not in ("shuffle", "shuffle_np2", "shuffle_ew", "bcast_join", "bcast_join_left", "bcast_join2", "bcast_join2_left", "hash_join")
    labelled = case["chain"] not in ("bcast_join", "bcast_join_left", "bcast_join2", "bcast_join2_left", "hash_join", "sorted_ignore_index")
    with dask.config.set({"dataframe.shuffle.method": case.get("method", "tasks")}):
        try:
            src = make_source(case["source"])
            x = CHAINS[case["chain"]](src)
            # reference = the partitions of the collection as the user sees it (logical
            # partitioning: lowered without any optimisation)
            full = run_parts(x.expr.lower_completely(), lower=False)
            p = len(full)
            if p != x.npartitions:
                return {"status": "inapplicable", "viols": [], "info": {"why": f"reference has {p} partitions, reported {x.npartitions}"}}
            if case["mode"] == "head" and not isinstance(full[0], (pd.DataFrame, pd.Series)):
                return {"status": "rejected", "viols": [], "info": {"why": "head/tail of an index"}}
        except CaseTimeout:
            raise
        except Exception as e:  # noqa: BLE001
            return {"status": "inapplicable", "viols": [], "info": {"why": short(e)}}
        info["npartitions"] = p
        nsel = 0
        mode = case["mode"]
        if mode == "partitions":
            for S in index_sets(p):
                nsel += 1
                try:
                    sel = x.partitions[S]
                    got = run_parts(sel.optimize(fuse=case.get("fuse", True)).expr)
                except CaseTimeout:
                    raise
                except Exception as e:  # noqa: BLE001
                    viols.append({"kind": "selection_raises:" + exc_kind(e), "detail": f"partitions[{S}]: {short(e)}"})
                    continue
                want = [full[s_] for s_ in S]
                if len(got) != len(S):
                    # the optimiser may fuse several files of a file-based source into one partition
                    # (a documented change of granularity): the rows must still be exactly those
                    if case["source"] not in FILE_SOURCES:
                        viols.append({"kind": "selection_npartitions", "detail": f"partitions[{S}] gave {len(got)} partitions"})
                        continue
                    info["regrouped"] = info.get("regrouped", 0) + 1
                    r = _cmp_parts(core._concat(want), core._concat(got), ordered, labelled)
                    if r:
                        viols.append({"kind": "selection_rows_fused_io:" + r.split(" ")[0], "detail": f"partitions[{S}]: {r}"})
                    continue
                if sel.npartitions != len(S):
                    viols.append({"kind": "selection_reported_npartitions", "detail": f"partitions[{S}].npartitions == {sel.npartitions}"})
                for s_, w, g in zip(S, want, got):
                    r = _cmp_parts(w, g, ordered, labelled)
                    if r:
                        viols.append({"kind": "selection_contents:" + r.split(" ")[0], "detail": f"partitions[{S}] -> partition {s_}: {r}"})
                        break
                # the row count of the selection (answered by the planner from source statistics where it can)
                try:
                    nrows = len(sel)
                    if nrows != sum(len(w) for w in want):
                        viols.append({"kind": "selection_len", "detail": f"len(partitions[{S}]) == {nrows}, the partitions hold {sum(len(w) for w in want)} rows"})
                except CaseTimeout:
                    raise
                except Exception as e:  # noqa: BLE001
                    viols.append({"kind": "selection_len_raises:" + exc_kind(e), "detail": f"len(partitions[{S}]): {short(e)}"})
            # get_partition and to_delayed
            for i in sorted({0, p - 1}):
                nsel += 1
                try:
                    g = run_parts(x.get_partition(i).optimize().expr)
                    r = _cmp_parts(full[i], g[0], ordered, labelled) if len(g) == 1 else f"{len(g)} partitions"
                    if r:
                        viols.append({"kind": "get_partition:" + str(r).split(" ")[0], "detail": f"get_partition({i}): {r}"})
                except CaseTimeout:
                    raise
                except Exception as e:  # noqa: BLE001
                    viols.append({"kind": "get_partition_raises:" + exc_kind(e), "detail": short(e)})
            try:
                nsel += 1
                ds = x.to_delayed()
                if len(ds) != p and case["source"] in FILE_SOURCES:
                    gs = [d.compute(scheduler="sync") for d in ds]
                    r = _cmp_parts(core._concat(full), core._concat(gs), ordered, labelled)
                    if r:
                        viols.append({"kind": "to_delayed_rows_fused_io:" + r.split(" ")[0], "detail": r})
                elif len(ds) != p:
                    viols.append({"kind": "to_delayed_count", "detail": f"{len(ds)} delayed for {p} partitions"})
                else:
                    for i, d in enumerate(ds):
                        g = d.compute(scheduler="sync")
                        r = _cmp_parts(full[i], g, ordered, labelled)
                        if r:
                            viols.append({"kind": "to_delayed:" + r.split(" ")[0], "detail": f"delayed {i}: {r}"})
                            break
            except CaseTimeout:
                raise
            except Exception as e:  # noqa: BLE001
                viols.append({"kind": "to_delayed_raises:" + exc_kind(e), "detail": short(e)})
        elif mode == "head":
            if not ordered:
                return {"status": "rejected", "viols": [], "info": {"why": "row order undefined"}}
            total = sum(len(f) for f in full)
            for k in list(range(1, p + 1)) + [-1]:
                avail = pd.concat(full[: (k if k > 0 else p)]) if core.is_frame_like(full[0]) else None
                if avail is None:
                    break
                if isinstance(avail, pd.Index):
                    break
                for n in sorted({0, 1, 2, len(full[0]), len(full[0]) + 1, len(avail), len(avail) + 1}):
                    nsel += 1
                    try:
                        got = x.head(n, npartitions=k, compute=False)
                        got = core.run(got.optimize().expr)
                    except CaseTimeout:
                        raise
                    except Exception as e:  # noqa: BLE001
                        viols.append({"kind": "head_raises:" + exc_kind(e), "detail": f"head({n}, npartitions={k}): {short(e)}"})
                        continue
                    r = compare(avail.head(n), got, ordered=True, labelled=labelled)
                    if r:
                        viols.append({"kind": "head:" + r.split(" ")[0], "detail": f"head({n}, npartitions={k}): {r}"})
            for n in sorted({0, 1, 2, len(full[-1]), len(full[-1]) + 1}):
                nsel += 1
                if isinstance(full[-1], pd.Index):
                    break
                try:
                    got = core.run(x.tail(n, compute=False).optimize().expr)
                except CaseTimeout:
                    raise
                except Exception as e:  # noqa: BLE001
                    viols.append({"kind": "tail_raises:" + exc_kind(e), "detail": f"tail({n}): {short(e)}"})
                    continue
                r = compare(full[-1].tail(n), got, ordered=True, labelled=labelled)
                if r:
                    viols.append({"kind": "tail:" + r.split(" ")[0], "detail": f"tail({n}): {r}"})
    info["selections"] = nsel
    info["nontrivial"] = p >= 2
    uniq = {}
    for v in viols:
        uniq.setdefault(v["kind"], v)
    return {"status": "viol" if uniq else "ok", "viols": list(uniq.values()), "info": info}


def key(case):
    return f"{case['mode']}|{case['source']}|{case['chain']}" + ("|nofuse" if case.get("fuse") is False else "") + ("|disk" if case.get("method") == "disk" else "")


def shrink(case):
    if case["chain"] != "none":
        yield dict(case, chain="none")
    if case["source"] != "from_pandas":
        yield dict(case, source="from_pandas")


def setup():
    global SCRATCH
    SCRATCH = tempfile.mkdtemp(prefix="c11_")
    write_files(SCRATCH)


def teardown():
    if SCRATCH:
        shutil.rmtree(SCRATCH, ignore_errors=True)


def run(ctx):
    quick = ctx.tier == "quick"
    setup()
    try:
        cases = []
        for s in SOURCES:
            for c in CHAINS:
                for mode in ("partitions", "head"):
                    cases.append({"mode": mode, "source": s, "chain": c})
                    if mode == "partitions" and c in ("shuffle", "shuffle_np2", "shuffle_ew", "hash_join", "sorted", "set_index") and s in ("from_pandas", "from_map", "read_csv"):
                        cases.append({"mode": mode, "source": s, "chain": c, "method": "disk"})
                    if not quick:
                        cases.append({"mode": mode, "source": s, "chain": c, "fuse": False})
        ctx.rule = (f"{len(SOURCES)} source kinds x {len(CHAINS)} chains of partition-wise / broadcast / shuffle / join / sort operations x EVERY index set "
                    "(all singles, all slices with start/stop/step incl. negative, reordered and repeated lists), get_partition, to_delayed, head(n, npartitions=k) for "
                    "all k and n on both sides of every partition length, tail(n); oracle = the partitions of the fully computed optimised collection; "
                    "non-trivial = collection has >= 2 partitions")
        res = ctx.map(evaluate, cases, chunk=6)
        ctx.states = len(cases)
        for case, r in res:
            inf = r.get("info", {})
            ctx.transitions += inf.get("selections", 0)
            if inf.get("nontrivial"):
                ctx.nontrivial += 1
        for c in (cases[0], cases[len(cases) // 2], cases[-1]):
            ctx.sample(key(c))
        ctx.assumptions += ["csv/parquet files are written with pandas/pyarrow directly", "row order inside shuffled partitions is fixed by using the 'tasks' method"]
        return ctx.finish(evaluate, shrink, key)
    finally:
        teardown()
