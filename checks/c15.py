"""C15 — planner caches are transparent: results are independent of session history."""
import gc
import itertools
import os
import time
import shutil
import tempfile

from mc import core, tables
from mc.core import exc_kind, short, time_limit, CaseTimeout
from mc.env import dask, pd, np

ID = "C15"
_TICK = itertools.count(1)
REF = {}  # reference tables, set in the parent before the workers are forked
FAIL = {"on": False}
DATASET = {"dir": None, "version": 0}


def _loader(part):
    if FAIL["on"]:
        raise RuntimeError("injected source failure")
    return part


def _Tm():
    """Source whose partitions fail to load while FAIL is on (from_map)."""
    import dask_expr as dx

    return dx.from_map(_loader, tables.cut(tables.T, [4, 8]), meta=tables.T.iloc[:0], divisions=(0, 4, 8, 11))


T_ALT = tables.T.assign(b=tables.T["b"] * 10, c="q")  # equal key column u, different payload
_SHARED_FRAME = tables.T.copy()


def _fp(n):
    import dask_expr as dx

    return dx.from_pandas(_SHARED_FRAME, npartitions=n)


def _pq(reader, **kw):
    import dask_expr as dx

    if reader == "arrow":
        kw["filesystem"] = "arrow"
    return dx.read_parquet(DATASET["dir"], **kw)


QUERIES = {
    "si_u": lambda: _Tm().set_index("u"),
    "si_u_up2": lambda: _Tm().set_index("u", upsample=2.0),
    "si_u_np2": lambda: _Tm().set_index("u", npartitions=2),
    "sort_u": lambda: _Tm().sort_values("u"),
    "sort_u_desc": lambda: _Tm().sort_values("u", ascending=False),
    "si_u_alt": lambda: tables.from_parts(tables.cut(T_ALT, [4, 8]), (0, 4, 8, 11)).set_index("u"),
    "sort_a": lambda: _Tm().sort_values("a"),
    # a column that is already ascending across partitions: the cached entry carries the direction-specific "presorted" flag
    "sort_p": lambda: _Tm().reset_index().sort_values("index"),
    "sort_p_desc": lambda: _Tm().reset_index().sort_values("index", ascending=False),
    "rp_200": lambda: _Tm()[["a", "u", "b"]].repartition(partition_size="150B"),
    "rp_400": lambda: _Tm()[["a", "u", "b"]].repartition(partition_size="400B"),
    "fp_2": lambda: _fp(2)[["a", "b"]],
    "fp_3": lambda: _fp(3)[["a", "b"]],
    "fp_3_sum": lambda: _fp(3).groupby("a")["b"].sum(),
    "pq_all": lambda: _pq("fsspec"),
    "pq_filter": lambda: (lambda x: x[x["w"] > 4])(_pq("fsspec")),
    "pq_proj": lambda: _pq("fsspec")[["k"]],
    "pqa_all": lambda: _pq("arrow"),
    "pqa_filter": lambda: (lambda x: x[x["w"] > 4][["k", "w"]])(_pq("arrow")),
    # a reader that already carries a partition selection when it is first asked for its length
    "pq_part1_opt": lambda: _pq("fsspec").partitions[1].optimize(),
    "pq_part0_opt": lambda: _pq("fsspec")[["k"]].partitions[0].optimize(),
    "pq_div": lambda: _pq("fsspec", calculate_divisions=True),
    "pqa_div": lambda: _pq("arrow", calculate_divisions=True),
    "pq_div_loc": lambda: (lambda x: x.loc[x.divisions[1]:])(_pq("fsspec", calculate_divisions=True)),
    "pqa_div_loc": lambda: (lambda x: x.loc[x.divisions[1]:])(_pq("arrow", calculate_divisions=True)),
    "shared_sub": lambda: (lambda x: x.assign(z=x["a"] + 1)[x["u"] > 2])(_Tm()),
    "gb": lambda: _Tm().groupby("a")["b"].sum(),
}
FILLERS = [(lambda i: (lambda: _Tm().assign(f=i).set_index("u")))(i) for i in range(11)]

PQ_V = {
    # same shapes, dtypes, digit counts and per-file value multisets => identical file sizes:
    # a rewrite is only visible through the file modification time
    0: pd.DataFrame({"k": [3, 1, 2, 1, 5, 2, 4, 4], "w": [7, 3, 1, 0, 5, 9, 6, 8]}, index=pd.Index(range(10, 18), name="idx")),
    1: pd.DataFrame({"k": [1, 2, 1, 3, 4, 4, 2, 5], "w": [0, 1, 3, 7, 8, 6, 9, 5]}, index=pd.Index(range(20, 28), name="idx")),
}
TEMPLATES = {}  # version -> directory with the files as written by to_parquet (prepared by the parent)


def _write_templates(root):
    import dask_expr as dx

    for v, pdf in PQ_V.items():
        dx.from_pandas(pdf, npartitions=2).to_parquet(os.path.join(root, f"v{v}"))
    return True


def prepare_templates(root):
    """Write both dataset versions with dask's own writer in a throw-away child process."""
    from mc.runner import fork_call

    fork_call(_write_templates, root)
    for v in PQ_V:
        TEMPLATES[v] = os.path.join(root, f"v{v}")


def write_dataset(d, version, how="pyarrow"):
    pdf = PQ_V[version]
    if how == "to_parquet":
        import dask_expr as dx

        dx.from_pandas(pdf, npartitions=2).to_parquet(d, overwrite=True)
        return
    # an external writer replaces the files (same names, same sizes, new modification time)
    os.makedirs(d, exist_ok=True)
    for f in os.listdir(d):
        os.remove(os.path.join(d, f))
    if version in TEMPLATES:
        now = time.time() + version + 5 * next(_TICK)
        for f in sorted(os.listdir(TEMPLATES[version])):
            dst = os.path.join(d, f)
            shutil.copyfile(os.path.join(TEMPLATES[version], f), dst)
            os.utime(dst, (now, now))
        return
    for i, part in enumerate(tables.cut(pdf, [len(pdf) // 2])):
        part.to_parquet(os.path.join(d, f"part.{i}.parquet"))


def observe(kind, qname):
    """One observation of one query.  Returns a JSON-able value."""
    q = QUERIES[qname]()
    if kind == "optimize":
        o = q.optimize()
        # parquet names embed the (per-history, temporary) dataset path and file times
        name = o._name.rsplit("-", 1)[0] if qname.startswith("pq") else o._name
        return ["plan", name, o.npartitions, [str(d) for d in o.divisions]]
    if kind == "divisions":
        return ["divisions", [str(d) for d in q.divisions], q.npartitions]
    if kind == "len":
        return ["len", int(len(q))]
    if kind == "compute":
        r = q.compute(scheduler="sync")
        ordered = qname not in ("sort_a", "gb", "fp_3_sum")
        out = ["result", core.digest(r, ordered=ordered, labelled=qname not in ("sort_a",))]
        if qname.startswith(("sort_", "si_")):
            # compute() collapses the plan to one partition first (other cache keys): also run the multi-partition plan
            out.append(core.digest(core.run(q.optimize().expr), ordered=ordered, labelled=qname not in ("sort_a",)))
        return out
    raise ValueError(kind)


def census():
    from mc import pristine

    return pristine.census()


def run_history(item):
    """Replay one history in this (pristine, freshly forked) process."""
    hist, config = item["hist"], item.get("config", {})
    ref = item.get("ref") or REF.get(repr(sorted(config.items())))
    viols, obs = [], []
    from mc import pristine
    from dask_expr import _shuffle, _repartition
    from dask_expr.io import parquet as pqmod

    # long-lived worker: bring the planner back to the pristine census (verified), else ask
    # the parent to replay this history in a freshly forked process
    _shuffle.divisions_lru.maxsize = 10
    _repartition.mem_usages_lru.maxsize = 10
    pqmod._CACHED_PLAN_SIZE = 10
    if not item.get("fresh") and not pristine.reset():
        return {"status": "needs_fresh", "viols": [], "info": {"obs": [], "state": None, "cache_entries": 0}}
    d = tempfile.mkdtemp(prefix="c15_")
    DATASET["dir"] = os.path.join(d, "ds")
    DATASET["version"] = 0
    FAIL["on"] = False
    write_dataset(DATASET["dir"], 0)
    try:
        with time_limit(120):
            if config.get("capacity"):
                _shuffle.divisions_lru.maxsize = config["capacity"]
                _repartition.mem_usages_lru.maxsize = config["capacity"]
                pqmod._CACHED_PLAN_SIZE = config["capacity"]
            with dask.config.set({"dataframe.shuffle.method": config.get("method", "tasks")}):
                kept = {}
                for ev in hist:
                    kind, arg = ev[0], ev[1] if len(ev) > 1 else None
                    if kind == "rewrite":
                        DATASET["version"] = 1 - DATASET["version"] if arg == "toggle" else 1
                        try:
                            write_dataset(DATASET["dir"], DATASET["version"], how=ev[2] if len(ev) > 2 else "pyarrow")
                        except Exception as e:  # noqa: BLE001
                            viols.append({"kind": "rewrite_raises:" + exc_kind(e), "detail": short(e)})
                        continue
                    if kind == "flood":
                        for f in FILLERS:
                            try:
                                f().optimize()
                            except Exception:  # noqa: BLE001
                                pass
                        continue
                    if kind == "drop":
                        kept.pop(arg, None)
                        gc.collect()
                        continue
                    if kind == "keep":
                        try:
                            kept[arg] = QUERIES[arg]()
                            kept[arg].optimize()
                        except Exception:  # noqa: BLE001
                            pass
                        continue
                    if kind == "fail":
                        FAIL["on"] = True
                        try:
                            QUERIES[arg]().compute(scheduler="sync")
                            viols.append({"kind": "injected_failure_not_raised", "detail": arg}) if arg in FAILABLE else None
                        except Exception:  # noqa: BLE001
                            pass
                        finally:
                            FAIL["on"] = False
                        continue
                    try:
                        o = observe(kind, arg)
                    except CaseTimeout:
                        raise
                    except Exception as e:  # noqa: BLE001
                        o = ["raises", exc_kind(e)]
                    obs.append([kind, arg, DATASET["version"], o])
                    if ref is not None:
                        want = ref.get(f"{kind}|{arg}|{DATASET['version']}")
                        if want is not None and want != o:
                            what = "raises" if o[0] == "raises" else kind
                            viols.append({"kind": f"history_dependent_{what}", "detail": f"{kind}({arg}) after {hist[:hist.index(ev)]}: {str(o)[:120]} != alone: {str(want)[:120]}"})
        state = census()
    except CaseTimeout as e:
        viols.append({"kind": "timeout", "detail": str(e)})
        state = None
    finally:
        shutil.rmtree(d, ignore_errors=True)
    import hashlib

    skey = hashlib.sha1(repr((state, DATASET["version"], sorted(kept) if "kept" in dir() else None)).encode()).hexdigest()[:16] if state is not None else None
    uniq = {}
    for v in viols:
        uniq.setdefault(v["kind"], v)
    hits = 0
    if state is not None:
        for name, ks in state:
            if name.endswith("divisions_lru") or name.endswith("mem_usages_lru") or name.endswith("_cached_plan"):
                hits += len(ks)
    return {"status": "viol" if uniq else "ok", "viols": list(uniq.values()), "info": {"obs": obs, "state": skey, "cache_entries": hits}}


FAILABLE = {"si_u", "si_u_up2", "si_u_np2", "sort_u", "sort_u_desc", "sort_p", "sort_p_desc", "sort_a", "rp_200", "rp_400", "shared_sub", "gb"}


def evaluate(case):
    """Replay entry point (case = {"hist": [...], "config": {...}}): computes the reference
    observations alone, then the history."""
    ref = {}
    from mc.runner import fork_call

    own_root = None
    if not TEMPLATES:
        own_root = tempfile.mkdtemp(prefix="c15t_")
        prepare_templates(own_root)
    try:
        for ev in case["hist"]:
            if ev[0] in ("optimize", "divisions", "len", "compute"):
                for v in (0, 1):
                    single = {"hist": ([["rewrite", "toggle"]] if v else []) + [ev], "config": case.get("config", {}), "fresh": True}
                    r = fork_call(run_history, single)
                    for kind, arg, ver, o in r["info"]["obs"]:
                        ref[f"{kind}|{arg}|{ver}"] = o
        return fork_call(run_history, dict(case, ref=ref, fresh=True))
    finally:
        if own_root:
            shutil.rmtree(own_root, ignore_errors=True)
            TEMPLATES.clear()


def key(case):
    return "|".join(",".join(map(str, ev)) for ev in case["hist"]) + (f"|cap={case['config']['capacity']}" if case.get("config", {}).get("capacity") else "")


def shrink(case):
    h = case["hist"]
    for i in range(len(h) - 1):
        yield dict(case, hist=h[:i] + h[i + 1 :])


def families(quick):
    """Queries that can interact through a shared cache, the observations that read it, other events."""
    obs3 = ["optimize", "compute", "divisions"]
    fam = {
        "sort": ((["si_u", "si_u_up2", "si_u_np2", "sort_p", "sort_p_desc", "si_u_alt", "sort_a"] if quick else
                  ["si_u", "si_u_up2", "si_u_np2", "sort_u", "sort_u_desc", "sort_p", "sort_p_desc", "si_u_alt", "sort_a"]), ["optimize", "compute"] if quick else obs3,
                 [["fail", "si_u"], ["fail", "sort_p"], ["keep", "si_u"], ["drop", "si_u"], ["flood"]]),
        "size": (["rp_200", "rp_400", "gb", "shared_sub"], ["optimize", "compute"] if quick else obs3, [["fail", "rp_200"], ["fail", "gb"], ["flood"]]),
        "frompandas": (["fp_2", "fp_3", "fp_3_sum"], ["compute", "divisions", "len"] if quick else obs3 + ["len"], [["keep", "fp_2"], ["drop", "fp_2"], ["flood"]]),
        "parquet": ((["pq_all", "pq_filter", "pqa_all", "pq_div", "pqa_div", "pqa_div_loc"] if quick else
                     ["pq_all", "pq_filter", "pq_proj", "pqa_all", "pqa_filter", "pq_div", "pqa_div", "pq_div_loc", "pqa_div_loc", "pq_part1_opt", "pq_part0_opt"]),
                    ["compute", "divisions"] if quick else ["compute", "divisions", "len"],
                    [["rewrite", "toggle"], ["rewrite", "toggle", "to_parquet"], ["keep", "pq_all"], ["keep", "pqa_div"], ["drop", "pq_all"], ["drop", "pqa_div"], ["flood"]]),
        # row counts answered from file statistics: readers with and without a partition selection / projection share one plan cache entry
        "parquet_len": (["pq_all", "pq_proj", "pq_part1_opt", "pq_part0_opt", "pqa_all"], ["len"], [["rewrite", "toggle"], ["keep", "pq_part1_opt"], ["drop", "pq_part1_opt"], ["flood"]]),
    }
    return fam


def run(ctx):
    quick = ctx.tier == "quick"
    from mc.runner import pmap

    _tmpl_root = tempfile.mkdtemp(prefix="c15t_")
    prepare_templates(_tmpl_root)
    obs_kinds = ["optimize", "compute", "len", "divisions"]
    configs = [{}] if quick else [{}, {"capacity": 2}]
    FAMILIES = families(quick)
    nev = sum(len(q) * len(o) + len(x) for q, o, x in FAMILIES.values())
    ctx.rule = (f"exhaustive enumeration of session histories per cache family ({len(FAMILIES)} families, {nev} events: optimize / compute / len / divisions of "
                f"{len(QUERIES)} queries that alias on every cache-key component, injected source failures, keep/drop+gc of handles, dataset rewrite (same file names and "
                "sizes, new modification time) by an external writer and by to_parquet(overwrite), flood of 11 filler plans > every capacity): ALL histories of length <= 2 and "
                "all histories [observation, any event, observation] (thorough: length 4 and cache capacity 2); each history runs in a worker whose planner state was reset "
                "and verified equal to the pristine census (else in a freshly forked process); every observation must equal the same query observed alone in a fresh "
                "process for the same dataset version; non-trivial = history ends with at least one cache entry")
    states = set()
    for config in configs:
        # reference table: each observation alone, for both dataset versions
        singles = []
        for fam, (qs, obs, extra) in FAMILIES.items():
            for q in qs:
                for k in obs_kinds:
                    singles.append({"hist": [[k, q]], "config": config})
                    if fam.startswith("parquet"):
                        singles.append({"hist": [["rewrite", "toggle"], [k, q]], "config": config})
        ref = {}
        for it, r in pmap(run_history, [dict(x, fresh=True) for x in singles], chunk=1):
            for kind, arg, ver, o in r["info"]["obs"]:
                ref[f"{kind}|{arg}|{ver}"] = o
        REF[repr(sorted(config.items()))] = ref
        ctx.cov["reference_observations"] = ctx.cov.get("reference_observations", 0) + len(ref)
        ctx.cov["reference_raises"] = sorted(k for k, o in ref.items() if o[0] == "raises")[:20]
        cands = []
        for fam, (qs, obs, extra) in FAMILIES.items():
            observations = [[k, q] for q in qs for k in obs]
            events = observations + extra
            for e1 in events:
                cands.append({"hist": [e1], "config": config})
                for e2 in events:
                    cands.append({"hist": [e1, e2], "config": config})
            for e1 in observations:
                for e2 in events:
                    for e3 in observations:
                        cands.append({"hist": [e1, e2, e3], "config": config})
            if not quick:
                for e1 in observations:
                    for e2 in extra:
                        for e3 in observations:
                            for e4 in observations:
                                cands.append({"hist": [e1, e2, e3, e4], "config": config})
        ctx.cov.setdefault("histories_per_config", []).append(len(cands))
        res = ctx.map(run_history, cands, chunk=16, fresh=False)
        redo = [dict(it, fresh=True) for it, r in res if r["status"] == "needs_fresh"]
        if redo:
            ctx.cov["histories_replayed_in_fresh_fork"] = ctx.cov.get("histories_replayed_in_fresh_fork", 0) + len(redo)
            res = [(it, r) for it, r in res if r["status"] != "needs_fresh"] + ctx.map(run_history, redo, chunk=1, fresh=True)
        ctx.transitions += sum(len(c["hist"]) for c in cands)
        for it, r in res:
            st = r.get("info", {}).get("state")
            if st:
                states.add(st)
            if r.get("info", {}).get("cache_entries"):
                ctx.nontrivial += 1
    ctx.states = len(states)
    ctx.failures = [({"hist": c["hist"], "config": c.get("config", {})}, v) for c, v in ctx.failures]
    ctx.status_counts.pop("needs_fresh", None)
    ctx.sample("optimize,si_u|compute,si_u_up2|divisions,si_u")
    ctx.sample("divisions,pqa_div|rewrite,toggle|divisions,pqa_div")
    ctx.assumptions += ["queries of different families cannot interact: they share no cache key component and no expression name",
                        "a worker whose census equals the pristine census behaves like a fresh process (every planner decision that is not a function of the query reads one of the censused containers)",
                        "p2p/distributed caches are unreachable in this image"]
    try:
        return ctx.finish(evaluate, shrink, key)
    finally:
        shutil.rmtree(_tmpl_root, ignore_errors=True)
