"""C05 — results do not depend on task scheduling; tasks never mutate their inputs."""
from mc import core, explore, ops as O, tables, sched
from mc.core import compare, exc_kind, short, time_limit, CaseTimeout, assemble
from mc.env import dask, pd, np

ID = "C05"

DEPTH2 = [
    ["assign_z", "rename_ab"], ["assign_over_a", "assign_z"], ["set_index_u", "reset_index"], ["filt_a_gt2", "assign_z"],
    ["assign_z", "a_plus_b"], ["rename_ab", "add_prefix"], ["fillna0", "assign_z"], ["assign_zz", "sum"], ["merge_T2_inner", "assign_z"],
    ["shuffle_a", "assign_z"], ["sort_u", "assign_over_a"], ["set_index_u", "assign_z"], ["concat_self", "assign_z"], ["gb_a_agg", "reset_index"],
    ["astype_f", "assign_over_a"], ["where", "fillna0"], ["dropna_b", "assign_z"], ["cumsum", "assign_z"], ["map_partitions", "assign_z"],
    ["reset_index", "rename_ab"], ["set_index_a", "sort_a"], ["filt_vs_mean", "assign_z"], ["concat_ax1", "assign_z"], ["join_agg", "reset_index"],
    ["merge_self_agg", "rename_ab"], ["assign_z", "shuffle_a"], ["assign_z", "set_index_u"], ["assign_z", "gb_a_agg"], ["assign_z", "merge_T2_left"],
    ["col_b", "s_rename"], ["col_b", "to_frame"], ["a_plus_b", "s_rename"], ["index", "unique"], ["shift1", "assign_z"],
    # top-n rewrites: the chunk function receives the partition object itself
    # rows that are equal in every selected column sit in different partitions under different labels: which copy survives
    ["proj_cd", "dropdup"], ["proj_a1", "dropdup"], ["col_a", "dropdup"], ["proj_abu", "dropdup_a"], ["proj_ab", "dropdup_a"],
    ["sort_u", "head3"], ["sort_a", "head3"], ["set_index_u", "head3"], ["sort_u", "tail3"], ["set_index_u", "tail3"], ["nlargest2_u", "assign_z"],
]
# programs run on a PERSISTED source too (partition objects shared between queries and held in the graph)
PERSISTED = [["sort_u", "head3"], ["sort_a", "head3"], ["set_index_u", "head3"], ["sort_u", "tail3"], ["nlargest2_u"], ["nsmallest3_b"], ["assign_z"], ["assign_over_a"],
             ["fillna0"], ["cumsum"], ["where"], ["dropna_b"], ["sort_u"], ["set_index_u"], ["shuffle_a"], ["gb_a_agg"], ["rename_ab"], ["reset_index"], ["dropdup_a"], ["map_partitions"],
             ["astype_f"], ["merge_T2_inner"], ["shift1"], ["clip"], ["replace"], ["mask"]]


def evaluate(case):
    try:
        with time_limit(240):
            return _evaluate(case)
    except CaseTimeout as e:
        return {"status": "viol", "viols": [{"kind": "timeout", "detail": str(e)}], "info": {}}


def _externals(plan):
    from dask_expr._util import _BackendData

    ext = {"user:T": tables.T, "user:T2": tables.T2}
    for n in plan.walk():
        for o in n.operands:
            if isinstance(o, _BackendData):
                ext[f"backend:{n._name[:24]}"] = o._data
            elif isinstance(o, (pd.DataFrame, pd.Series)):
                ext[f"operand:{n._name[:24]}"] = o
    return ext


def _planner_state():
    from dask_expr import _shuffle, _repartition

    return (tuple(sorted(map(repr, _shuffle.divisions_lru.keys()))), tuple(sorted(map(repr, _repartition.mem_usages_lru.keys()))))


def _evaluate(case):
    info, viols = {}, []
    ops = case["ops"]
    method = case.get("method", "tasks")
    try:
        q = O.build(tables.source(case["src"]), ops, method=method)
    except CaseTimeout:
        raise
    except Exception as e:  # noqa: BLE001
        return {"status": "rejected", "viols": [], "info": {"why": short(e)}}
    typ = O.typing_of(ops)
    with dask.config.set({"dataframe.shuffle.method": method}):
        try:
            plan = q.optimize(fuse=case.get("fuse", True)).expr.lower_completely() if not case.get("unoptimised") else q.expr.lower_completely()
            dsk = dict(plan.__dask_graph__())
            out_keys = list(plan.__dask_keys__())
            ref = None  # taken from the first monitored schedule (nothing may run unmonitored before)
        except CaseTimeout:
            raise
        except Exception as e:  # noqa: BLE001
            return {"status": "inapplicable", "viols": [], "info": {"why": short(e)}}
        keys, deps, order = sched.build_dag(dsk)
        cap = case.get("cap", 150)
        total = sched.count_linear_extensions(keys, deps, cap)
        exhaustive = total <= cap
        ext = _externals(plan)
        ordered = typ.ordered and typ.defined and method != "disk"
        nsched = 0
        state0 = _planner_state()
        outcomes = set()
        for seq in sched.schedules(keys, deps, order, reduce=not exhaustive, cap=cap):
            nsched += 1
            try:
                cache, muts = sched.run_schedule(dsk, seq, monitor=True, externals=ext)
                res = assemble([cache[k] for k in out_keys], plan)
            except CaseTimeout:
                raise
            except Exception as e:  # noqa: BLE001
                if ref is None:
                    # the query itself fails (first schedule): nothing to compare
                    return {"status": "inapplicable", "viols": [], "info": {"why": short(e)}}
                viols.append({"kind": "schedule_raises:" + exc_kind(e), "detail": f"schedule #{nsched}: {short(e)}"})
                break
            for task, victim in muts:
                tname = task.split("-")[0].strip("('\"")
                viols.append({"kind": f"task_mutates_input:{tname}", "detail": f"task {task[:60]} changed {victim[:70]}"})
            if ref is None:
                ref = res
            elif typ.defined:
                r = compare(ref, res, ordered=ordered, labelled=typ.labelled)
                if r:
                    viols.append({"kind": "schedule_dependent_result:" + r.split(" ")[0], "detail": f"schedule #{nsched} {[repr(k)[:30] for k in seq[:6]]}...: {r}"})
            outcomes.add(core.digest(res, ordered=False, labelled=False) if core.is_frame_like(res) else repr(res))
            if viols:
                break
        if _planner_state() != state0:
            viols.append({"kind": "tasks_touch_planner_state", "detail": "divisions_lru / mem_usages_lru keys changed while executing tasks"})
        # repeated compute of one collection
        if not viols and case.get("repeat", True):
            try:
                a = q.compute(scheduler="sync")
                b = q.compute(scheduler="sync")
                c = q.compute(scheduler="sync")
                if typ.defined:
                    for other in (b, c):
                        r = compare(a, other, ordered=ordered, labelled=typ.labelled)
                        if r:
                            viols.append({"kind": "repeated_compute_differs:" + r.split(" ")[0], "detail": r})
                            break
            except CaseTimeout:
                raise
            except Exception as e:  # noqa: BLE001
                info["compute_error"] = exc_kind(e)
        # free-running threaded pass (supplementary detector, reported only if it reproduces 3/3)
        if not viols and case.get("threads", True) and typ.defined:
            from dask.threaded import get as tget

            for nw in (2, 8):
                bad = 0
                last = None
                for _ in range(3):
                    try:
                        res = assemble(list(tget(dsk, out_keys, num_workers=nw)), plan)
                        r = compare(ref, res, ordered=ordered, labelled=typ.labelled)
                    except Exception as e:  # noqa: BLE001
                        r = "raises " + short(e)
                    if r:
                        bad += 1
                        last = r
                if bad == 3:
                    viols.append({"kind": "threaded_result_differs", "detail": f"{nw} workers: {last}"})
                elif bad:
                    info["thread_anomaly"] = last
    info["tasks"] = len(keys)
    info["schedules"] = nsched
    info["linear_extensions"] = total if exhaustive else f">{cap}"
    info["exhaustive"] = exhaustive
    info["outcomes"] = len(outcomes)
    shared = sum(1 for k in keys if sum(1 for d in deps.values() if k in d) >= 2)
    info["shared_keys"] = shared
    info["nontrivial"] = nsched >= 2
    uniq = {}
    for v in viols:
        uniq.setdefault(v["kind"], v)
    return {"status": "viol" if uniq else "ok", "viols": list(uniq.values()), "info": info}


def key(case):
    k = explore.prog_key({"src": case["src"], "ops": case["ops"]})
    for f in ("fuse", "method", "unoptimised"):
        if f in case:
            k += f"|{f}={case[f]}"
    return k


def shrink(case):
    for c in explore.shrink_prog({"src": case["src"], "ops": case["ops"]}):
        yield dict(case, **c)
    if case.get("cap", 150) > 20:
        yield dict(case, cap=20, threads=False, repeat=False)


def run(ctx):
    quick = ctx.tier == "quick"
    cap = 60 if quick else 1500
    progs = [[o.name] for o in O.alphabet(2) if O.applicable(o, "df")] + DEPTH2
    cases = []
    for src in (["T:2"] if quick else ["T:2", "T:3", "T:1"]):
        for ops in progs:
            for fuse in (True, False):
                cases.append({"src": src, "ops": ops, "fuse": fuse, "cap": cap})
            if any(o in ("shuffle_a", "shuffle_a_np2", "sort_u", "sort_a", "set_index_u", "set_index_a", "merge_T2_inner", "merge_T2_left", "dropdup", "dropdup_a", "gb_a_sum_so2", "unique", "value_counts", "merge_self_agg", "join_agg") for o in ops):
                cases.append({"src": src, "ops": ops, "fuse": True, "method": "disk", "cap": cap})
    for ops in PERSISTED:
        if all(o in O.OPS for o in ops):
            for fuse in (True, False):
                cases.append({"src": "T:p2", "ops": ops, "fuse": fuse, "cap": cap})
    ctx.rule = (f"{len(progs)} programs (every alphabet operation + pairs chosen for in-place-style tasks and shared intermediates) x fused/unfused plan x shuffle method, plus {len(PERSISTED)} programs on a persisted source; "
                f"for each graph ALL linear extensions are executed when there are <= {cap}, otherwise up to {cap} trace representatives under the adjacent-commutation reduction "
                "(dependence = shared argument key or direct dependency); after every task the deep fingerprint of every live result, of the user's pandas objects and of "
                "the source frames is re-checked; results of all schedules, of 3 repeated compute() calls and of threaded runs (2, 8 workers) must agree; "
                "non-trivial = at least two schedules executed")
    res = ctx.map(evaluate, cases, chunk=4)
    ctx.states = 0
    nex = ncap = 0
    for case, r in res:
        inf = r.get("info", {})
        ctx.states += inf.get("tasks", 0)
        ctx.transitions += inf.get("schedules", 0) * inf.get("tasks", 0)
        if inf.get("nontrivial"):
            ctx.nontrivial += 1
        if inf.get("exhaustive"):
            nex += 1
        elif "schedules" in inf:
            ncap += 1
    ctx.cov["graphs_all_linear_extensions"] = nex
    ctx.cov["graphs_reduced_and_capped"] = ncap
    ctx.cov["schedules_executed"] = sum(r.get("info", {}).get("schedules", 0) for _, r in res)
    if ncap:
        ctx.caps.append(f"{ncap} graphs have more than {cap} linear extensions: explored up to {cap} reduced representatives each")
    for c in (cases[0], cases[len(cases) // 2], cases[-1]):
        ctx.sample(key(c))
    ctx.assumptions += ["tasks are atomic steps; intra-task thread preemption is not explored (the monitors show tasks only share immutable data)",
                        "fused groups run their inner graph in dask's order; the unfused plan of every program is explored too"]
    return ctx.finish(evaluate, shrink, key)
