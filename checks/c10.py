"""C10 — execution knobs change performance only, never results."""
import itertools

from mc import core, tables
from mc.core import compare, exc_kind, short, time_limit, CaseTimeout
from mc.env import dask, pd, np

ID = "C10"
NaN = float("nan")


def big():
    t = tables.make_T(0)
    t2 = t.copy()
    t2["u"] = t2["u"] + 12
    t2["a"] = t2["a"] + 1
    out = pd.concat([t, t2], ignore_index=True)
    return out


BIG = big()
RIGHT = pd.DataFrame({"a": [1, 1, 2, 4, 7, 8, 2, 9, 3, 5], "e": [10.0, 20.0, NaN, 40.0, 50.0, 60.0, 70.0, 80.0, 90.0, 100.0], "b": [9.0, 8, 7, 6, 5, 4, 3, 2, 1, 0]})


def src(pdf, n, sort=True):
    import dask_expr as dx

    return dx.from_pandas(pdf, npartitions=n, sort=sort)


def kw(case, *names):
    return {n: case[n] for n in names if case.get(n, "__unset__") != "__unset__"}


TEMPLATES = {}


def tmpl(name, fn, pd_fn, ordered=False, labelled=True):
    TEMPLATES[name] = (fn, pd_fn, ordered, labelled)


NUM = ["a", "u", "b", "d"]
tmpl("red_sum", lambda x, c: x[NUM].sum(**kw(c, "split_every")), lambda p: p[NUM].sum(), ordered=True)
tmpl("red_mean_s", lambda x, c: x["b"].mean(**kw(c, "split_every")), lambda p: p["b"].mean())
tmpl("red_var", lambda x, c: x[NUM].var(**kw(c, "split_every")), lambda p: p[NUM].var(), ordered=True)
# partitions that contribute NO valid value (emptied by a selective filter / a column that is all-null in a chunk): the combine steps of a
# deeper tree must ignore them like the final aggregate does
tmpl("red_var_sparse", lambda x, c: x[x["a"] > 4][NUM].var(**kw(c, "split_every")), lambda p: p[p["a"] > 4][NUM].var(), ordered=True)
tmpl("red_std_sparse_s", lambda x, c: x[x["u"] > 17]["b"].std(**kw(c, "split_every")), lambda p: p[p["u"] > 17]["b"].std())
tmpl("red_mean_sparse", lambda x, c: x[x["a"] > 4][NUM].mean(**kw(c, "split_every")), lambda p: p[p["a"] > 4][NUM].mean(), ordered=True)
tmpl("red_count_filter", lambda x, c: x[x["a"] > 2]["u"].count(**kw(c, "split_every")), lambda p: p[p["a"] > 2]["u"].count())
tmpl("red_nunique", lambda x, c: x["a"].nunique(**kw(c, "split_every")), lambda p: p["a"].nunique())
tmpl("red_max_str", lambda x, c: x["c"].max(**kw(c, "split_every")), lambda p: p["c"].max())
tmpl("nlargest", lambda x, c: x.nlargest(5, "u", **kw(c, "split_every")), lambda p: p.nlargest(5, "u"), ordered=True)
tmpl("gb_sum", lambda x, c: x.groupby("a")[["b", "u"]].sum(**kw(c, "split_every", "split_out", "shuffle_method")), lambda p: p.groupby("a")[["b", "u"]].sum())
tmpl("gb_agg", lambda x, c: x.groupby("a").agg({"b": "mean", "u": "max", "d": "count"}, **kw(c, "split_every", "split_out", "shuffle_method")), lambda p: p.groupby("a").agg({"b": "mean", "u": "max", "d": "count"}))
tmpl("gb_multi", lambda x, c: x.groupby(["a", "d"])["u"].sum(**kw(c, "split_every", "split_out", "shuffle_method")), lambda p: p.groupby(["a", "d"])["u"].sum())
tmpl("gb_multi_agg", lambda x, c: x.groupby(["a", "d"]).agg({"b": "sum", "u": "min"}, **kw(c, "split_every", "split_out", "shuffle_method")), lambda p: p.groupby(["a", "d"]).agg({"b": "sum", "u": "min"}))
tmpl("gb_var", lambda x, c: x.groupby("a")["b"].var(**kw(c, "split_every", "split_out")), lambda p: p.groupby("a")["b"].var())
tmpl("gb_nunique", lambda x, c: x.groupby("a")["d"].nunique(**kw(c, "split_every", "split_out")), lambda p: p.groupby("a")["d"].nunique())
tmpl("gb_size_str", lambda x, c: x.groupby("c").size(**kw(c, "split_every", "split_out")), lambda p: p.groupby("c").size())
tmpl("gb_median", lambda x, c: x.groupby("a")["u"].median(**kw(c, "split_every")), lambda p: p.groupby("a")["u"].median())
tmpl("unique", lambda x, c: x["a"].unique(**kw(c, "split_every", "split_out", "shuffle_method")), lambda p: pd.Series(p["a"].unique(), name="a"), labelled=False)
tmpl("drop_duplicates", lambda x, c: x[["a", "d"]].drop_duplicates(**kw(c, "split_every", "split_out", "shuffle_method")), lambda p: p[["a", "d"]].drop_duplicates(), labelled=False)
tmpl("drop_duplicates_subset", lambda x, c: x.drop_duplicates(subset=["a"], **kw(c, "split_every", "split_out", "shuffle_method"))[["a"]], lambda p: p.drop_duplicates(subset=["a"])[["a"]], labelled=False)
tmpl("value_counts", lambda x, c: x["a"].value_counts(**kw(c, "split_every", "split_out")), lambda p: p["a"].value_counts())
tmpl("value_counts_str", lambda x, c: x["c"].value_counts(**kw(c, "split_every", "split_out")), lambda p: p["c"].value_counts())
tmpl("value_counts_norm", lambda x, c: x["b"].value_counts(normalize=True, **kw(c, "split_every", "split_out")), lambda p: p["b"].value_counts(normalize=True))
tmpl("value_counts_norm_keepna", lambda x, c: x["c"].value_counts(normalize=True, dropna=False, **kw(c, "split_every", "split_out")), lambda p: p["c"].value_counts(normalize=True, dropna=False))
tmpl("value_counts_asc", lambda x, c: x["b"].value_counts(sort=True, ascending=True, **kw(c, "split_every", "split_out")), lambda p: p["b"].value_counts(sort=True, ascending=True))
tmpl("nunique_keepna", lambda x, c: x["b"].nunique(dropna=False, **kw(c, "split_every")), lambda p: p["b"].nunique(dropna=False))
tmpl("drop_duplicates_last", lambda x, c: x.drop_duplicates(subset=["a"], keep="last", **kw(c, "split_every", "split_out", "shuffle_method"))[["a"]], lambda p: p.drop_duplicates(subset=["a"], keep="last")[["a"]], labelled=False)
tmpl("gb_sum_dropna_false", lambda x, c: x.groupby("c", dropna=False)["u"].sum(**kw(c, "split_every", "split_out")), lambda p: p.groupby("c", dropna=False)["u"].sum())
tmpl("gb_mean_observed", lambda x, c: x.groupby("a")["b"].mean(**kw(c, "split_every", "split_out")), lambda p: p.groupby("a")["b"].mean())
# order-sensitive aggregations: the answer is defined by the row order of the frame, whatever algorithm is chosen
tmpl("gb_first_last", lambda x, c: x.groupby("a").agg({"u": "first", "b": "last"}, **kw(c, "split_every", "split_out", "shuffle_method")), lambda p: p.groupby("a").agg({"u": "first", "b": "last"}))
tmpl("gb_first", lambda x, c: x.groupby("a")[["u", "b"]].first(**kw(c, "split_every", "split_out", "shuffle_method")), lambda p: p.groupby("a")[["u", "b"]].first())
tmpl("gb_idxmin", lambda x, c: x.groupby("a")["u"].idxmin(**kw(c, "split_every", "split_out", "shuffle_method")), lambda p: p.groupby("a")["u"].idxmin())
# two keys: the planner raises split_out by itself above 10 partitions
tmpl("gb_multi_first", lambda x, c: x.groupby(["a", "d"])[["u", "b"]].first(**kw(c, "split_every", "split_out", "shuffle_method")), lambda p: p.groupby(["a", "d"])[["u", "b"]].first())
tmpl("gb_value_counts", lambda x, c: x.groupby("a")["d"].value_counts(**kw(c, "split_every", "split_out", "shuffle_method")), lambda p: p.groupby("a")["d"].value_counts())
tmpl("gb_multi_value_counts", lambda x, c: x.groupby(["a", "d"])["b"].value_counts(**kw(c, "split_every", "split_out", "shuffle_method")), lambda p: p.groupby(["a", "d"])["b"].value_counts())
tmpl("sort", lambda x, c: x.sort_values("u", **kw(c, "npartitions", "upsample", "shuffle_method")), lambda p: p.sort_values("u"), ordered=True)
tmpl("sort_desc", lambda x, c: x.sort_values("u", ascending=False, **kw(c, "npartitions", "upsample", "shuffle_method")), lambda p: p.sort_values("u", ascending=False), ordered=True)
tmpl("sort_dupkey", lambda x, c: x.sort_values("a", **kw(c, "npartitions", "upsample", "shuffle_method"))[["a"]], lambda p: p.sort_values("a")[["a"]], ordered=True, labelled=False)
tmpl("set_index", lambda x, c: x.set_index("u", **kw(c, "npartitions", "upsample", "shuffle_method")), lambda p: p.set_index("u").sort_index(), ordered=True)
tmpl("set_index_dup", lambda x, c: x.set_index("a", **kw(c, "npartitions", "upsample", "shuffle_method")), lambda p: p.set_index("a").sort_index(kind="stable"), ordered=False)
tmpl("set_index_dup_loc", lambda x, c: x.set_index("a", **kw(c, "npartitions", "upsample", "shuffle_method")).loc[3], lambda p: p.set_index("a").sort_index(kind="stable").loc[[3]], ordered=False)
tmpl("set_index_dup_slice", lambda x, c: x.set_index("a", **kw(c, "npartitions", "upsample", "shuffle_method")).loc[2:4], lambda p: p.set_index("a").sort_index(kind="stable").loc[2:4], ordered=False)
tmpl("sort_two_keys_cumsum", lambda x, c: x.sort_values(["a", "u"], **kw(c, "npartitions", "upsample", "shuffle_method"))["u"].cumsum(), lambda p: p.sort_values(["a", "u"])["u"].cumsum(), ordered=True)
tmpl("shuffle_gb", lambda x, c: x.shuffle("a", **kw(c, "npartitions", "shuffle_method", "max_branch")).groupby("a")["u"].sum(), lambda p: p.groupby("a")["u"].sum())


def presorted_src(n, by="u"):
    # by="a": sorted on a key with duplicate runs, so partition borders cut through runs of equal keys
    p = BIG.sort_values(by, kind="stable").reset_index(drop=True)
    return p


def evaluate(case):
    try:
        with time_limit(120):
            return _evaluate(case)
    except CaseTimeout as e:
        return {"status": "viol", "viols": [{"kind": "timeout", "detail": str(e)}], "info": {}}


def _evaluate(case):
    viols, info = [], {}
    cfg = {}
    if case.get("cfg_method"):
        cfg["dataframe.shuffle.method"] = case["cfg_method"]
    with dask.config.set(cfg):
        if case["t"] == "merge":
            return _eval_merge(case)
        fn, pfn, ordered, labelled = TEMPLATES[case["t"]]
        pdf = presorted_src(0, "a" if case.get("presorted") == "a" else "u") if case.get("presorted") else BIG
        x = src(pdf, case["n"], sort=True)
        try:
            exp = pfn(tables.dask_dtypes(pdf))
        except Exception as e:  # noqa: BLE001
            return {"status": "inapplicable", "viols": [], "info": {"why": short(e)}}
        try:
            q = fn(x, case)
        except CaseTimeout:
            raise
        except Exception as e:  # noqa: BLE001
            return {"status": "rejected", "viols": [], "info": {"why": short(e)}}
        try:
            got = core.run(q.optimize(fuse=case.get("fuse", True)).expr)
        except CaseTimeout:
            raise
        except Exception as e:  # noqa: BLE001
            viols.append({"kind": "raises:" + exc_kind(e), "detail": short(e)})
            return {"status": "viol", "viols": viols, "info": info}
        r = compare(exp, got, ordered=ordered, labelled=labelled)
        if r:
            viols.append({"kind": f"{case['t']}:{r.split(' ')[0]}", "detail": f"vs pandas: {r}"})
        # vs default knobs
        try:
            base = core.run(fn(x, {}).optimize().expr)
            r2 = compare(base, got, ordered=ordered, labelled=labelled)
            if r2 and not r:
                viols.append({"kind": f"{case['t']}:differs_from_default:{r2.split(' ')[0]}", "detail": r2})
        except CaseTimeout:
            raise
        except Exception:  # noqa: BLE001
            pass
    info["nontrivial"] = case["n"] > 1
    return {"status": "viol" if viols else "ok", "viols": viols, "info": info}


def _eval_merge(case):
    viols, info = [], {}
    L, R = BIG, RIGHT
    x, y = src(L, case["nl"]), src(R, case["nr"])
    kws = kw(case, "broadcast", "npartitions", "shuffle_method")
    how = case["how"]
    try:
        if how == "leftsemi":
            # pandas has no semi join: the rows of the left input whose key occurs on the right, each once
            Ld, Rd = tables.dask_dtypes(L), tables.dask_dtypes(R)
            if case.get("on_index"):
                Li = Ld.set_index("a")
                exp = Li[Li.index.isin(Rd["a"])]
                q = x.set_index("a").merge(y.set_index("a"), left_index=True, right_index=True, how=how, **kws)
                labelled = True
            else:
                exp = Ld[Ld["a"].isin(Rd["a"])]
                q = x.merge(y, on="a", how=how, **kws)
                labelled = False
        elif case.get("on_index"):
            exp = tables.dask_dtypes(L).set_index("a").merge(tables.dask_dtypes(R).set_index("a"), left_index=True, right_index=True, how=how, suffixes=("_l", "_r"))
            q = x.set_index("a").merge(y.set_index("a"), left_index=True, right_index=True, how=how, suffixes=("_l", "_r"), **kws)
            labelled = True
        else:
            exp = tables.dask_dtypes(L).merge(tables.dask_dtypes(R), on="a", how=how)
            q = x.merge(y, on="a", how=how, **kws)
            labelled = False
    except CaseTimeout:
        raise
    except Exception as e:  # noqa: BLE001
        return {"status": "rejected", "viols": [], "info": {"why": short(e)}}
    try:
        got = core.run(q.optimize(fuse=case.get("fuse", True)).expr)
    except CaseTimeout:
        raise
    except Exception as e:  # noqa: BLE001
        return {"status": "viol", "viols": [{"kind": "raises:" + exc_kind(e), "detail": short(e)}], "info": info}
    r = compare(exp, got, ordered=False, labelled=labelled, check_kinds=False)
    if r:
        viols.append({"kind": f"merge_{how}:{r.split(' ')[0]}", "detail": r})
    from dask_expr._merge import BroadcastJoin, BlockwiseMerge

    plan = q.optimize(fuse=False).expr
    info["algo"] = "broadcast" if any(isinstance(n, BroadcastJoin) for n in plan.walk()) else "hash_or_blockwise"
    info["nontrivial"] = case["nl"] > 1 or case["nr"] > 1
    return {"status": "viol" if viols else "ok", "viols": viols, "info": info}


def key(case):
    return ",".join(f"{k}={case[k]}" for k in sorted(case))


def shrink(case):
    for knob in ("split_every", "split_out", "shuffle_method", "npartitions", "upsample", "broadcast", "max_branch", "cfg_method", "fuse"):
        if knob in case:
            c = dict(case)
            del c[knob]
            yield c
    for nfield in ("n", "nl", "nr"):
        if case.get(nfield, 1) > 1:
            yield dict(case, **{nfield: case[nfield] - 1})


U = "__unset__"


def run(ctx):
    quick = ctx.tier == "quick"
    cases = []
    ns = [1, 2, 3, 5, 9, 12] if quick else list(range(1, 13))
    for t in ("red_sum", "red_mean_s", "red_var", "red_var_sparse", "red_std_sparse_s", "red_mean_sparse", "red_count_filter", "red_nunique", "nunique_keepna", "red_max_str", "nlargest", "gb_median"):
        for n in (range(1, 13)):
            for se in (U, False, 2, 3, 4, 8):
                cases.append({"t": t, "n": n, "split_every": se, "fuse": n % 2 == 0})
    for t in ("gb_sum", "gb_agg", "gb_multi", "gb_multi_agg", "gb_var", "gb_nunique", "gb_size_str", "gb_sum_dropna_false", "gb_mean_observed"):
        for n in ns:
            for se in (U, False, 2, 3, 8):
                for so in (U, 1, 2, 3, True):
                    for m in ((U, "tasks", "disk") if t in ("gb_sum", "gb_agg", "gb_multi", "gb_multi_agg") else (U,)):
                        if quick and m == "disk" and so in (U, 1):
                            continue
                        cases.append({"t": t, "n": n, "split_every": se, "split_out": so, "shuffle_method": m})
    # (groupby idxmin / idxmax are wrong whatever the knobs: recorded under C02, KF-groupby-idxmax-first-partition)
    for t in ("gb_first_last", "gb_first", "gb_multi_first", "gb_value_counts", "gb_multi_value_counts"):
        for n in ns:
            for so in (U, 1, 2, 3):
                for m in (U, "tasks", "disk"):
                    cases.append({"t": t, "n": n, "split_out": so, "shuffle_method": m})
    for t in ("unique", "drop_duplicates", "drop_duplicates_subset", "drop_duplicates_last", "value_counts", "value_counts_str", "value_counts_norm", "value_counts_norm_keepna", "value_counts_asc"):
        for n in ns:
            for se in (U, 2, 8):
                for so in (U, 1, 2, 3, True):
                    for m in ((U, "tasks", "disk") if t in ("unique", "drop_duplicates", "drop_duplicates_subset") else (U,)):
                        cases.append({"t": t, "n": n, "split_every": se, "split_out": so, "shuffle_method": m})
    for t in ("sort", "sort_desc", "sort_dupkey", "set_index", "set_index_dup"):
        for n in ns:
            for npart in (U, 1, 2, 5):
                for up in (U, 0.5, 1.0, 4.0):
                    for m in (U, "tasks", "disk"):
                        for pres in ((False, True) if t in ("set_index", "sort") else (False,)):
                            if quick and m == "disk" and up not in (U,):
                                continue
                            cases.append({"t": t, "n": n, "npartitions": npart, "upsample": up, "shuffle_method": m, "presorted": pres})
    for t in ("set_index_dup_loc", "set_index_dup_slice", "sort_two_keys_cumsum"):
        for n in ns:
            for npart in (U, 1, 2, 5):
                for m in (U, "tasks", "disk"):
                    for pres in (False, True, "a"):
                        cases.append({"t": t, "n": n, "npartitions": npart, "shuffle_method": m, "presorted": pres})
    for n in ns:
        for mb in (U, 2, 3, 4, 8):
            for npart in (U, 2, 7):
                cases.append({"t": "shuffle_gb", "n": n, "max_branch": mb, "npartitions": npart, "shuffle_method": "tasks"})
    for how in ("inner", "left", "right", "outer", "leftsemi"):
        for (nl, nr) in ((1, 1), (1, 4), (3, 2), (6, 2), (2, 9), (12, 3), (12, 1), (5, 5), (1, 9)):
            for b in (U, True, False, 0.1, 2.0):
                for npart in (U, 1, 2, 5):
                    for m in (U, "tasks", "disk"):
                        if quick and m == "disk" and npart not in (U, 2):
                            continue
                        cases.append({"t": "merge", "how": how, "nl": nl, "nr": nr, "broadcast": b, "npartitions": npart, "shuffle_method": m})
            for b in (U, True, False):
                cases.append({"t": "merge", "how": how, "nl": nl, "nr": nr, "broadcast": b, "on_index": True})
    # configuration-level shuffle method
    for t in ("gb_multi", "sort", "set_index", "unique"):
        for n in (3, 9):
            for m in ("tasks", "disk"):
                cases.append({"t": t, "n": n, "cfg_method": m, "split_out": 2} if t in ("gb_multi", "unique") else {"t": t, "n": n, "cfg_method": m})
    ctx.rule = ("full Cartesian grids per query template: split_every {unset,False,2,3,4,8} x split_out {unset,1,2,3,True} x shuffle method {unset,tasks,disk} x max_branch {2,3,4,8} x "
                "broadcast {unset,True,False,0.1,2.0} x npartitions hints {unset,1,2,5} x upsample {0.5,1,4} x fuse on/off, for reductions, groupby (single / multi key), "
                "unique / drop_duplicates / value_counts, sort_values / set_index (presorted and not), merges of every how and (n_left, n_right) on both sides of the broadcast "
                "thresholds, with 1..12 input partitions; oracle = pandas and the default-knob result (multiset equality); non-trivial = more than one input partition")
    res = ctx.map(evaluate, cases, chunk=48)
    ctx.states = len(cases)
    ctx.transitions = len(cases)
    algos = {}
    for case, r in res:
        if r.get("info", {}).get("nontrivial"):
            ctx.nontrivial += 1
        a = r.get("info", {}).get("algo")
        if a:
            algos[a] = algos.get(a, 0) + 1
    ctx.cov["join_algorithms_chosen"] = algos
    for c in (cases[3], cases[len(cases) // 2], cases[-1]):
        ctx.sample(key(c))
    ctx.assumptions += ["p2p shuffle / HashJoinP2P unreachable (distributed not installed)", "groupby/unique outputs compared as multisets (order is a knob-dependent layout matter)"]
    return ctx.finish(evaluate, shrink, key)
