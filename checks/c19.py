"""C19 — optimisation terminates, is deterministic and idempotent."""
import json
import os
import subprocess
import sys

from mc import explore, ops as O, tables, env
from mc.core import STAGES, compare, exc_kind, optimize_until, short, time_limit, CaseTimeout
from mc.core import run as run_plan
from mc.structkey import ekey

ID = "C19"
LARGE_PROGRAMS = [("TL:5", ["set_index_u"]), ("TL:5", ["sort_u"]), ("TL:5", ["set_index_a"]), ("TL:5", ["sort_a"]), ("TL:4", ["set_index_u", "proj_ab"]),
                  ("TL:5", ["filt_a_gt2", "set_index_u"]), ("TL:5", ["dropdup_a"]), ("TL:5", ["gb_a_sum_so2"]), ("TL:5", ["merge_T2_inner"]), ("TL:5", ["sort_b_desc"])]


class Counters:
    """Harness-side wrappers counting rewrite steps of the real drivers."""

    def __init__(self):
        from dask_expr import _core, _expr

        self.core, self.expr_mod = _core, _expr
        self.counts = {}

    def __enter__(self):
        Expr = self.core.Expr
        self.saved = (Expr.simplify_once, Expr.lower_once, Expr.rewrite, self.expr_mod._fusion_pass if hasattr(self.expr_mod, "_fusion_pass") else None)
        counts = self.counts

        def wrap(name, f, top_only):
            depth = {"d": 0}

            def w(self, *a, **k):
                if not top_only or depth["d"] == 0:
                    counts[name] = counts.get(name, 0) + 1
                depth["d"] += 1
                try:
                    return f(self, *a, **k)
                finally:
                    depth["d"] -= 1

            return w

        Expr.simplify_once = wrap("simplify_rounds", self.saved[0], True)
        Expr.lower_once = wrap("lower_rounds", self.saved[1], True)
        Expr.rewrite = wrap("rewrite_calls", self.saved[2], False)
        if self.saved[3] is not None:
            f = self.saved[3]

            def fp(*a, **k):
                counts["fusion_passes"] = counts.get("fusion_passes", 0) + 1
                return f(*a, **k)

            self.expr_mod._fusion_pass = fp
        return self

    def __exit__(self, *a):
        Expr = self.core.Expr
        Expr.simplify_once, Expr.lower_once, Expr.rewrite = self.saved[:3]
        if self.saved[3] is not None:
            self.expr_mod._fusion_pass = self.saved[3]


def evaluate(case):
    if case.get("mode") == "seed":
        return evaluate_seed(case)
    try:
        with time_limit(int(os.environ.get("VERIF_C19_TIMEOUT", "40"))):
            return _evaluate(case)
    except CaseTimeout as e:
        return {"status": "viol", "viols": [{"kind": "timeout", "detail": str(e)}], "info": {}}


def _evaluate(case):
    from mc.env import dask

    # 'tasks' shuffles: row order inside shuffled partitions is then deterministic
    with dask.config.set({"dataframe.shuffle.method": "tasks"}):
        return _evaluate_inner(case)


def _evaluate_inner(case):
    info, viols = {}, []
    try:
        src = tables.source(case["src"])
        q = O.build(src, case["ops"])
        expr = q.expr
        info["kind"] = O.kind_of(q)
        info["skey"] = ekey(expr)
        nnodes = len(list(expr.walk()))
    except CaseTimeout:
        raise
    except Exception as e:  # noqa: BLE001
        return {"status": "rejected", "viols": [], "info": {"why": short(e)}}
    try:
        expr.lower_completely()
    except CaseTimeout:
        raise
    except Exception as e:  # noqa: BLE001
        return {"status": "inapplicable", "viols": [], "info": {"why": "ref lower: " + short(e), **info}}
    # 1. bounded number of rewrite steps, no non-convergence report
    with Counters() as c:
        try:
            opt = optimize_until(expr, "fused")
        except CaseTimeout:
            raise
        except RuntimeError as e:
            if "does not converge" in str(e):
                viols.append({"kind": "non_convergence", "detail": short(e)})
                return {"status": "viol", "viols": viols, "info": info}
            return {"status": "inapplicable", "viols": [], "info": {"why": "optimize: " + short(e), **info}}
        except Exception as e:  # noqa: BLE001
            return {"status": "inapplicable", "viols": [], "info": {"why": "optimize: " + short(e), **info}}
    info["counts"] = dict(c.counts)
    info["nodes"] = nnodes
    budget = 4 * nnodes + 16
    for k, v in c.counts.items():
        if k in ("simplify_rounds", "lower_rounds", "fusion_passes") and v > budget:
            viols.append({"kind": "step_budget:" + k, "detail": f"{k}={v} > {budget} for {nnodes} nodes"})
    # 2. deterministic: same plan every time, also after unrelated queries were optimised
    k0, n0 = ekey(opt), opt._name
    try:
        tables.source("T2:2").groupby("a").e.sum().optimize()
        for rep in range(2):
            again = optimize_until(expr, "fused")
            if ekey(again) != k0 or again._name != n0:
                viols.append({"kind": "nondeterministic_plan", "detail": f"repetition {rep}: {again._name} vs {n0}"})
                break
        for st in STAGES[:-1]:
            a, b = optimize_until(expr, st), optimize_until(expr, st)
            if a._name != b._name or ekey(a) != ekey(b):
                viols.append({"kind": "nondeterministic_plan", "detail": f"stage {st}"})
                break
    except CaseTimeout:
        raise
    except Exception as e:  # noqa: BLE001
        viols.append({"kind": "reoptimize_raises:" + exc_kind(e), "detail": short(e)})
    info["nontrivial"] = ekey(expr.lower_completely()) != k0
    # 3. idempotent: optimising an optimised collection leaves the result unchanged
    typ = O.typing_of(case["ops"])
    try:
        base = run_plan(opt, lower=False)
    except CaseTimeout:
        raise
    except Exception as e:  # noqa: BLE001
        return {"status": "viol" if viols else "inapplicable", "viols": viols, "info": {"why": "opt run: " + short(e), **info}}
    from dask_expr._collection import new_collection

    variants = {
        "optimize(optimize(q))": lambda: new_collection(opt).optimize().expr,
        "optimize(fuse=False) then optimize()": lambda: new_collection(optimize_until(expr, "simplified-physical")).optimize().expr,
        "optimize() then optimize(fuse=False)": lambda: new_collection(opt).optimize(fuse=False).expr,
    }
    for label, mk in variants.items():
        try:
            with Counters() as c2:
                again = mk()
            for k, v in c2.counts.items():
                if k in ("simplify_rounds", "lower_rounds", "fusion_passes") and v > budget:
                    viols.append({"kind": "step_budget:" + k, "detail": f"{label}: {k}={v} > {budget}"})
            res = run_plan(again)
        except CaseTimeout:
            raise
        except RuntimeError as e:
            if "does not converge" in str(e):
                viols.append({"kind": "non_convergence", "detail": f"{label}: {short(e)}"})
                continue
            viols.append({"kind": "reoptimize_raises:" + exc_kind(e), "detail": f"{label}: {short(e)}"})
            continue
        except Exception as e:  # noqa: BLE001
            if typ.defined:
                viols.append({"kind": "reoptimize_raises:" + exc_kind(e), "detail": f"{label}: {short(e)}"})
            continue
        if again.npartitions != opt.npartitions:
            viols.append({"kind": "reoptimize_changes:npartitions", "detail": f"{label}: {again.npartitions} != {opt.npartitions}"})
        elif tuple(map(str, again.divisions)) != tuple(map(str, opt.divisions)):
            viols.append({"kind": "reoptimize_changes:divisions", "detail": f"{label}: {again.divisions} != {opt.divisions}"})
        reason = compare(base, res, ordered=typ.ordered and typ.defined, labelled=typ.labelled and typ.defined) if typ.defined else None
        if reason:
            viols.append({"kind": "reoptimize_changes:" + reason.split(" ")[0], "detail": f"{label}: {reason}"})
    uniq = {}
    for v in viols:
        uniq.setdefault(v["kind"], v)
    return {"status": "viol" if uniq else "ok", "viols": list(uniq.values()), "info": info}


# ---------------------------------------------------------------------------
# cross-interpreter determinism (different PYTHONHASHSEED)
# ---------------------------------------------------------------------------


def names_of(case):
    src = tables.source(case["src"])
    q = O.build(src, case["ops"])
    out = {"logical": q._name}
    for st in ("simplified-logical", "simplified-physical", "fused"):
        try:
            out[st] = optimize_until(q.expr, st)._name
        except Exception as e:  # noqa: BLE001
            out[st] = "ERR:" + type(e).__name__
    return out


def dump_names(cases_path, out_path):
    with open(cases_path) as f:
        cases = json.load(f)
    res = {}
    for c in cases:
        try:
            res[explore.prog_key(c)] = names_of(c)
        except Exception as e:  # noqa: BLE001
            res[explore.prog_key(c)] = {"logical": "ERR:" + type(e).__name__}
    with open(out_path, "w") as f:
        json.dump(res, f)


def cross_seed(cases, seeds=(0, 1, 12345, 987654321), order_variants=True):
    """Rebuild + optimise all cases in fresh interpreters with different hash seeds
    (and in reversed construction order); return {prog_key: {stage: set(names)}} disagreements."""
    import tempfile

    d = tempfile.mkdtemp(prefix="c19_")
    procs = []
    try:
        for i, seed in enumerate(seeds):
            cs = list(cases)
            if order_variants and i % 2 == 1:
                cs = cs[::-1]
            cp, op = os.path.join(d, f"cases{i}.json"), os.path.join(d, f"out{i}.json")
            with open(cp, "w") as f:
                json.dump(cs, f)
            e = dict(os.environ, PYTHONHASHSEED=str(seed))
            procs.append((op, subprocess.Popen([sys.executable, "-W", "ignore", "-c",
                          f"import sys; sys.path.insert(0, {env.VERIF!r}); from checks import c19; c19.dump_names({cp!r}, {op!r})"], env=e, cwd=env.VERIF)))
        outs = []
        for op, p in procs:
            p.wait()
            with open(op) as f:
                outs.append(json.load(f))
    finally:
        import shutil

        shutil.rmtree(d, ignore_errors=True)
    bad = {}
    for k in outs[0]:
        for st in outs[0][k]:
            vals = {o.get(k, {}).get(st) for o in outs}
            if len(vals) > 1:
                bad.setdefault(k, {})[st] = sorted(map(str, vals))
    return bad, len(outs[0])


def evaluate_seed(case):
    """Replayable form of a cross-seed disagreement."""
    bad, _ = cross_seed([{"src": case["src"], "ops": case["ops"]}], order_variants=False)
    viols = []
    for k, stages in bad.items():
        st = sorted(stages)[0]
        viols.append({"kind": "hashseed_dependent_plan:" + ("logical" if "logical" in stages else "optimized"), "detail": f"{st}: {stages[st][:2]}"})
    return {"status": "viol" if viols else "ok", "viols": viols, "info": {}}


def run(ctx):
    if ctx.tier == "quick":
        plan = [(["T:3"], [2, 1])] + explore.extra_stages("light")
    else:
        plan = [(["T:3"], [2, 2]), (["T:3"], [1, 1, 1]), (["T:m0,5,5,9", "T:1"], [2, 2])]
    ctx.rule = ("E1 BFS over programs; per program: harness counters around simplify_once/lower_once/rewrite/_fusion_pass "
                "(budget 4*nodes+16 rounds, SIGALRM wall limit), 'does not converge' is a violation, optimize() repeated 3x and after "
                "an unrelated query must give the same plan (name and structural key), optimize(optimize(q)) and fuse on/off nestings "
                "must compute the same result with the same npartitions/divisions; all programs are re-optimised in 4 fresh interpreters "
                "with different PYTHONHASHSEED and reversed construction order; non-trivial = optimiser changed the plan")
    okcases = []
    maxc = {}
    for sources, tiers in plan:
        res = explore.bfs(ctx, evaluate, sources, tiers)
        for case, r in res:
            for k, v in r.get("info", {}).get("counts", {}).items():
                maxc[k] = max(maxc.get(k, 0), v)
            if r["status"] in ("ok", "viol") and r.get("info", {}).get("skey"):
                okcases.append({"src": case["src"], "ops": case["ops"]})
            if r["status"] == "ok" and len(case["ops"]) == len(tiers):
                ctx.sample(explore.prog_key(case), cap=10)
    ctx.cov["max_rewrite_counts_observed"] = maxc
    # cross-interpreter determinism (plus a 120-row table: data-dependent planning such as
    # quantile sampling only depends on its random state when partitions are large enough)
    okcases += [{"src": src, "ops": ops} for src, ops in LARGE_PROGRAMS]
    bad, n = cross_seed(okcases)
    ctx.cov["cross_seed_programs"] = n
    ctx.cov["cross_seed_interpreters"] = 4
    ctx.evaluations += n * 4
    for k, stages in bad.items():
        src, _, opsstr = k.partition("|")
        case = {"src": src, "ops": [o for o in opsstr.split(",") if o], "mode": "seed"}
        st = sorted(stages)[0]
        kind = "hashseed_dependent_plan:" + ("logical" if "logical" in stages else "optimized")
        ctx.failures.append((case, {"kind": kind, "detail": f"{st}: {stages[st][:2]}"}))
    return ctx.finish(evaluate, explore.shrink_prog, explore.prog_key)
