"""C01 — optimisation never changes what a query computes (DESIGN §4 C01).

E1 exploration; oracle = the same query lowered with no optimisation.
"""
from mc import core, explore, ops as O, tables
from mc.core import STAGES, compare, exc_kind, optimize_until, short, time_limit, CaseTimeout
from mc.core import run as run_plan
from mc.env import dask
from mc.structkey import ekey

ID = "C01"
SHUFFLE_CLASSES = ("DiskShuffle", "TaskShuffle", "P2PShuffle")


def _mismatch_kind(reason):
    return "mismatch:" + reason.split(" ")[0]


def evaluate(case, stages=None):
    stages = stages or STAGES
    viols = []
    info = {}
    try:
        with time_limit(90):
            return _evaluate(case, stages, viols, info)
    except CaseTimeout as e:
        viols.append({"kind": "timeout", "detail": str(e)})
        return {"status": "viol", "viols": viols, "info": info}


def _evaluate(case, stages, viols, info):
    from mc import rulecov

    rulecov.install()
    rulecov.drain()
    try:
        return _evaluate2(case, stages, viols, info)
    finally:
        info["rules"] = [list(t) for t in rulecov.drain()]


def _evaluate2(case, stages, viols, info):
    ops = case["ops"]
    try:
        src = tables.source(case["src"])
        q = O.build(src, ops)
        expr = q.expr
        info["kind"] = O.kind_of(q)
        info["skey"] = ekey(expr)
    except CaseTimeout:
        raise
    except Exception as e:  # noqa: BLE001
        return {"status": "rejected", "viols": [], "info": {"why": short(e)}}
    typ = O.typing_of(ops)
    methods = [case.get("method", "tasks")]
    try:
        ref_plan = expr.lower_completely()
        has_shuffle = any(type(n).__name__ in SHUFFLE_CLASSES for n in ref_plan.walk())
    except CaseTimeout:
        raise
    except Exception as e:  # noqa: BLE001
        return {"status": "inapplicable", "viols": [], "info": {"why": "ref lower: " + short(e), **info}}
    if has_shuffle and "method" not in case:
        methods = ["tasks", "disk"]
    info["has_shuffle"] = has_shuffle
    changed = False
    executions = 0
    for method in methods:
        with dask.config.set({"dataframe.shuffle.method": method}):
            try:
                if method != "tasks":
                    # operations that resolve the shuffle method when they are built (shuffle()) are rebuilt under it
                    q = O.build(tables.source(case["src"]), ops, method=method)
                    expr = q.expr
                ref_plan = expr.lower_completely()
                ref = run_plan(ref_plan, lower=False)
                executions += 1
            except CaseTimeout:
                raise
            except Exception as e:  # noqa: BLE001
                return {"status": "inapplicable", "viols": [], "info": {"why": "ref run: " + short(e), **info}}
            done = {ekey(ref_plan): None}
            for stage in (list(stages) + ["compute"]) if method == methods[0] else ["compute"]:
                try:
                    if stage == "compute":
                        res = q.compute(scheduler="sync")
                        executions += 1
                    else:
                        plan = optimize_until(expr, stage).lower_completely()
                        k = ekey(plan)
                        if k in done:
                            continue
                        changed = True
                        res = run_plan(plan, lower=False)
                        executions += 1
                        done[k] = None
                except CaseTimeout:
                    raise
                except Exception as e:  # noqa: BLE001
                    if method == "disk" and methods[0] == "tasks" and not any(v["kind"].startswith("opt_raises") for v in viols):
                        # run-dependent row order of the disk shuffle (KF-disk-shuffle-row-order) makes label-based steps after it
                        # (loc on an unsorted index...) fail in some runs only; crash-freedom is decided under the tasks method above
                        info["disk_only_raise"] = short(e)
                        continue
                    viols.append({"kind": "opt_raises:" + exc_kind(e), "detail": f"stage={stage} method={method}: {short(e)}"})
                    continue
                if method == "disk" and any("order_through_shuffle" in O.OPS[n].tags for n in ops):
                    # the operation carries its rows through a shuffle and its VALUE depends on their order inside a group
                    # (groupby ffill / bfill / shift): under the disk shuffle that order is run-dependent
                    # (KF-disk-shuffle-row-order, decided under C10), so only the schema is compared here
                    reason = _schema_only(ref, res)
                elif typ.defined and not typ.approx:
                    # the disk (partd) shuffle hands rows back in a run-dependent order (recorded finding
                    # KF-disk-shuffle-row-order): under that method results are compared as multisets
                    reason = compare(ref, res, ordered=typ.ordered and method != "disk", labelled=typ.labelled)
                else:
                    reason = _schema_only(ref, res)
                if reason:
                    viols.append({"kind": _mismatch_kind(reason), "detail": f"stage={stage} method={method}: {reason}"})
    info["nontrivial"] = changed
    info["executions"] = executions
    info["defined"] = typ.defined
    # one violation per kind
    uniq = {}
    for v in viols:
        uniq.setdefault(v["kind"], v)
    return {"status": "viol" if uniq else "ok", "viols": list(uniq.values()), "info": info}


def _schema_only(a, b):
    ca, cb = core.canon(a, False), core.canon(b, False)
    if ca["container"] != cb["container"]:
        return f"container {ca['container']} != {cb['container']}"
    if ca["columns"] != cb["columns"]:
        return f"columns {ca['columns']} != {cb['columns']}"
    return None


def run(ctx):
    if ctx.tier == "quick":
        plan = [(["T:3"], [2, 2]), (["Tg:3"], [2])] + explore.extra_stages("full")
    else:
        plan = [(["T:3"], [3, 3]), (["T:3"], [1, 1, 1]), (["T:m0,5,5,9", "T:1", "T:u4"], [3, 2]), (["T:3"], [2, 2, 1])]
    ctx.rule = (
        "E1 BFS: programs = source + op list from the typed alphabet (mc/ops.py), all programs up to the depth/tier "
        "plan enumerated, deduplicated by an independent structural key; each state is executed unoptimised and at "
        "every optimiser stage (+compute()), under shuffle methods tasks and disk when a shuffle is present; "
        "non-trivial = the optimiser produced a plan structurally different from the unoptimised lowering"
    )
    ctx.cov["plan"] = plan
    rules = set()
    for sources, tiers in plan:
        res = explore.bfs(ctx, evaluate, sources, tiers)
        for case, r in res:
            for t in r.get("info", {}).pop("rules", []):
                rules.add(tuple(t))
            if r["status"] == "ok" and len(case["ops"]) == len(tiers):
                ctx.sample(explore.prog_key(case), cap=12)
    from mc import rulecov

    den = rulecov.denominators()
    cov = {}
    for h, classes in den.items():
        ran = {c for (c, hh, _, _) in rules if hh == h}
        fired = {c for (c, hh, _, f) in rules if hh == h and f}
        cov[h] = {"defined_in": len(classes), "executed": len(ran & classes), "fired": len(fired & classes), "never_executed": sorted(classes - ran)}
    ctx.cov["rule_coverage"] = cov
    ctx.cov["rule_contexts_seen"] = len(rules)
    ctx.assumptions += [
        "reference = expr.lower_completely() executed by dask.local.get_sync",
        "value comparison only where the query defines the value (typing in mc/ops.py); otherwise container+labels only",
        "tables are the fixed tables of mc/tables.py",
        "under the disk (partd) shuffle results are compared as multisets and exceptions are only counted when the tasks method fails too: its row order is run-dependent (KF-disk-shuffle-row-order)",
    ]
    return ctx.finish(evaluate, explore.shrink_prog, explore.prog_key)
