"""C07 — declared schema matches the computed data."""
from checks import _walk

ID = "C07"


def evaluate(case, oracle="schema"):
    return _walk.evaluate(case, "schema")


def run(ctx):
    ctx.assumptions += ["dtype kinds are compared up to pandas' promotion on missing values (int/bool -> float/object); empty and all-null partitions may degrade"]
    return _walk.run(ctx, "schema",
        "E1 BFS over programs; for each program the unoptimised and optimised plans are executed once keeping every key and EVERY "
        "node's declared _meta (container, labels and order, series/index names, dtype kinds) is compared with each of its computed "
        "partitions and, for the top node, with the assembled result and the collection type; the declared schema must be identical "
        "across stages; non-trivial = more than one structurally distinct plan")
