"""C09 — task graphs are closed, acyclic, unambiguous and free of planner objects."""
from mc import explore, ops as O, tables, graphcheck
from mc.core import STAGES, exc_kind, optimize_until, short, time_limit, CaseTimeout
from mc.env import dask
from mc.structkey import ekey

ID = "C09"


def evaluate(case):
    try:
        with time_limit(60):
            return _evaluate(case)
    except CaseTimeout as e:
        return {"status": "viol", "viols": [{"kind": "timeout", "detail": str(e)}], "info": {}}


def _plans(q, case):
    """(label, lowered plan) for every stage, fuse on/off, plus imported graphs."""
    expr = q.expr
    yield "unoptimised", expr.lower_completely()
    for st in STAGES:
        yield st, optimize_until(expr, st).lower_completely()
    if case.get("extra"):
        import dask_expr as dx

        kind = O.kind_of(q)
        if kind in ("df", "s"):
            # graphs imported through persist / to_delayed+from_delayed, then continued
            p = q.persist(scheduler="sync")
            yield "persist", p.optimize().expr
            yield "persist.partitions", p.partitions[[p.npartitions - 1]].optimize().expr
            d = dx.from_delayed(q.to_delayed(), meta=q._meta)
            yield "from_delayed", d.optimize().expr
            yield "nested-fused", d.optimize().optimize().expr


def _evaluate(case):
    info, viols = {}, []
    try:
        src = tables.source(case["src"])
        q = O.build(src, case["ops"], method=case.get("method", "tasks"))
        info["kind"] = O.kind_of(q)
        info["skey"] = ekey(q.expr)
    except CaseTimeout:
        raise
    except Exception as e:  # noqa: BLE001
        return {"status": "rejected", "viols": [], "info": {"why": short(e)}}
    ntasks = 0
    seen = set()
    with dask.config.set({"dataframe.shuffle.method": case.get("method", "tasks")}):
        try:
            q.expr.lower_completely().__dask_graph__()
        except CaseTimeout:
            raise
        except Exception as e:  # noqa: BLE001
            return {"status": "inapplicable", "viols": [], "info": {"why": "ref graph: " + short(e), **info}}
        gen = _plans(q, case)
        while True:
            try:
                label, plan = next(gen)
            except StopIteration:
                break
            except CaseTimeout:
                raise
            except Exception as e:  # noqa: BLE001
                # optimisation failures are C01's business; here only graphs that exist are analysed
                info.setdefault("plan_errors", []).append(exc_kind(e))
                break
            k = ekey(plan)
            if k in seen:
                continue
            seen.add(k)
            try:
                probs, n = graphcheck.analyse(plan)
            except CaseTimeout:
                raise
            except Exception as e:  # noqa: BLE001
                info.setdefault("plan_errors", []).append("graph:" + exc_kind(e))
                continue
            ntasks += n
            for p in probs:
                viols.append({"kind": "graph:" + _kind(p), "detail": f"{label}: {p}"})
    info["nontrivial"] = len(seen) > 1
    info["tasks"] = ntasks
    info["graphs"] = len(seen)
    uniq = {}
    for v in viols:
        uniq.setdefault(v["kind"], v)
    return {"status": "viol" if uniq else "ok", "viols": list(uniq.values()), "info": info}


def _kind(p):
    for pat in ("output keys", "output key", "references undefined key", "embeds planner object", "toposort failed",
                "defined by two expressions", "fused group", "fused", "not serialisable", "_layer of"):
        if pat in p:
            return pat.replace(" ", "_")
    return "other"


def run(ctx):
    if ctx.tier == "quick":
        plan = [(["T:3"], [2, 2], {}), (["T:3"], [1, 1], {"method": "disk"}), (["T:3"], [2], {"extra": 1}), (["T:d3", "T:a3"], [2], {})] + [(s, t, {}) for s, t in explore.extra_stages("t3")]
    else:
        plan = [(["T:3"], [2, 2], {}), (["T:m0,5,5,9", "T:1", "T:u4"], [2, 2], {}), (["T:3"], [2, 2], {"method": "disk"}), (["T:3"], [1, 1, 1], {}), (["T:3"], [2, 1], {"extra": 1})]
    ctx.rule = ("E1 BFS over programs; for every program the graph of the unoptimised lowering and of every optimiser stage "
                "(and, in the 'extra' pass, of plans continued from persist/from_delayed and of twice-optimised plans) is analysed: "
                "output keys defined, closure, acyclicity, one task per key across layers, fused inner graphs closed, no planner "
                "objects, cloudpickle round trip under dask-expr-no-serialize; non-trivial = more than one structurally distinct plan")
    total_graphs = total_tasks = 0
    for sources, tiers, extra in plan:
        res = explore.bfs(ctx, evaluate, sources, tiers, extra=extra)
        for case, r in res:
            total_graphs += r.get("info", {}).get("graphs", 0)
            total_tasks += r.get("info", {}).get("tasks", 0)
            if r["status"] == "ok" and len(case["ops"]) == len(tiers):
                ctx.sample(explore.prog_key(case), cap=10)
    ctx.cov["graphs_analysed"] = total_graphs
    ctx.cov["tasks_analysed"] = total_tasks
    ctx.cov["plan"] = [list(p) for p in plan]
    ctx.assumptions += ["a tuple (name, int) is treated as a key reference when name is an expression name of the plan or the name of any key in the graph"]
    return ctx.finish(evaluate, explore.shrink_prog, explore.prog_key)
