"""C02 — results equal the pandas meaning of the query for every partitioning."""
import itertools

from mc import core, tables
from mc.core import compare, exc_kind, short, time_limit, CaseTimeout
from mc.env import dask, pd, np

ID = "C02"
NaN = float("nan")


def table_L(n):
    a = [1, 2, 1, 3, 2, 1, 3, 4][:n]
    u = [5, 3, 7, 0, 6, 1, 4, 2][:n]
    b = [1.0, NaN, 2.5, 4.0, NaN, 0.5, -1.0, 2.5][:n]
    c = ["x", "y", None, "x", "z", "y", "x", None][:n]
    d = [0, 1, 1, 0, 1, 0, 0, 1][:n]
    return pd.DataFrame({"a": a, "u": u, "b": b, "c": c, "d": d})


def table_R(n):
    a = [1, 1, 2, 5, 3, 6, 2][:n]
    e = [10.0, 20.0, NaN, 40.0, 50.0, 60.0, 70.0][:n]
    b = [9.0, 8.0, 7.0, NaN, 5.0, 4.0, 3.0][:n]
    return pd.DataFrame({"a": a, "e": e, "b": b})


def all_cuts(n):
    out = []
    for r in range(0, n):
        for comb in itertools.combinations(range(1, n), r):
            out.append(list(comb))
    return out


def with_empties(cuts, n, variant):
    """variant: none | front | mid | back | filtered"""
    c = list(cuts)
    if variant == "front":
        c = [0] + c
    elif variant == "back":
        c = c + [n]
    elif variant == "mid":
        if c:
            c = sorted(c + [c[len(c) // 2]])
        else:
            c = [n // 2, n // 2]
    return c


def build_input(pdf, cuts, known):
    parts = tables.cut(pdf, cuts)
    divs = None
    if known:
        edges = [0] + list(cuts) + [len(pdf)]
        if len(set(edges)) == len(edges) and pdf.index.is_monotonic_increasing and pdf.index.is_unique:
            divs = [pdf.index[e] for e in edges[:-1]] + [pdf.index[-1]]
    return tables.from_parts(parts, divs), divs is not None


# --------------------------------------------------------------------------
# operator families.  fn(x) for both dask and pandas unless pd given.
# flags: ordered (row order defined), labelled (index labels defined)
# --------------------------------------------------------------------------

F1 = {}


def fam(name, fn, pd_fn=None, ordered=True, labelled=True, group="misc", approx=False, need_known=False):
    F1[name] = dict(fn=fn, pd=pd_fn or fn, ordered=ordered, labelled=labelled, group=group, need_known=need_known)


num = lambda x: x[["a", "u", "b", "d"]]  # noqa: E731

# elementwise
fam("ew_add_cols", lambda x: x["a"] + x["b"], group="elementwise")
fam("ew_frame_mul", lambda x: num(x) * 2 - 1, group="elementwise")
fam("ew_where", lambda x: x.where(x["a"] > 1), group="elementwise")
fam("ew_fillna", lambda x: x["b"].fillna(0), group="elementwise")
fam("ew_assign", lambda x: x.assign(z=x["a"] * x["d"], w=x["c"].fillna("-")), group="elementwise")
fam("ew_isin_filter", lambda x: x[x["c"].isin(["x", "z"])], group="elementwise")
fam("ew_sub_mean", lambda x: x["b"] - x["b"].mean(), group="elementwise")
fam("ew_str", lambda x: x["c"].str.upper(), group="elementwise")
# reductions
for r in ("sum", "mean", "min", "max", "count", "var", "std", "prod"):
    fam(f"red_{r}", (lambda r: lambda x: getattr(num(x), r)())(r), group="reductions")
    fam(f"red_s_{r}", (lambda r: lambda x: getattr(x["b"], r)())(r), group="reductions")
fam("red_sum_se2", lambda x: num(x).sum(split_every=2), pd_fn=lambda x: num(x).sum(), group="reductions")
fam("red_mean_se3", lambda x: x["b"].mean(split_every=3), pd_fn=lambda x: x["b"].mean(), group="reductions")
fam("red_any", lambda x: (x["a"] > 2).any(), group="reductions")
fam("red_all", lambda x: (x["a"] > 0).all(), group="reductions")
fam("red_nunique", lambda x: x["a"].nunique(), group="reductions")
fam("red_nunique_c", lambda x: x["c"].nunique(), group="reductions")
fam("red_idxmax_u", lambda x: x["u"].idxmax(), group="reductions")
fam("red_idxmin_b", lambda x: x["b"].idxmin(), group="reductions")
fam("red_min_str", lambda x: x["c"].min(), group="reductions")
fam("red_len", lambda x: _len(x), pd_fn=lambda x: len(x), group="reductions")
fam("red_sem", lambda x: x["b"].sem(), group="reductions")
fam("red_first_valid", lambda x: x["b"].dropna().head(1, npartitions=-1) if not isinstance(x, pd.DataFrame) else x["b"].dropna().head(1), group="reductions")
# groupby
for agg in ("sum", "mean", "count", "min", "max", "size", "var", "std", "first", "last", "nunique", "median", "prod"):
    if agg == "size":
        fam(f"gb_{agg}", lambda x: x.groupby("a").size(), group="groupby", ordered=False)
    else:
        fam(f"gb_{agg}", (lambda agg: lambda x: getattr(x.groupby("a")[["b", "u"]], agg)())(agg), group="groupby", ordered=False)
fam("gb_agg_dict", lambda x: x.groupby("a").agg({"b": ["sum", "max"], "u": "min"}), group="groupby", ordered=False)
fam("gb_multi", lambda x: x.groupby(["a", "d"])["b"].sum(), group="groupby", ordered=False)
fam("gb_sorted", lambda x: x.groupby("a", sort=True)["u"].sum(), group="groupby", ordered=True)
fam("gb_split_out", lambda x: x.groupby("a")["u"].sum(split_out=2), pd_fn=lambda x: x.groupby("a")["u"].sum(), group="groupby", ordered=False)
fam("gb_nosort", lambda x: x.groupby("a", sort=False)["u"].max(), group="groupby", ordered=False)
fam("gb_str_key", lambda x: x.groupby("c")["u"].sum(), group="groupby", ordered=False)
fam("gb_dropna_false", lambda x: x.groupby("c", dropna=False)["u"].sum(), group="groupby", ordered=False)
fam("gb_idxmax", lambda x: x.groupby("a")["u"].idxmax(), group="groupby", ordered=False)
fam("gb_cumsum", lambda x: x.groupby("a")["u"].cumsum(), group="groupby")
fam("gb_cumcount", lambda x: x.groupby("a").cumcount(), group="groupby")
fam("gb_transform", lambda x: x.groupby("a")["u"].transform("sum"), group="groupby", ordered=False)
fam("gb_apply", lambda x: x.groupby("a")[["u", "d"]].apply(_gb_apply), group="groupby", ordered=False, labelled=False)
fam("gb_shift", lambda x: x.groupby("a")["u"].shift(1), group="groupby", ordered=False)
fam("gb_value_counts", lambda x: x.groupby("a")["d"].value_counts(), group="groupby", ordered=False)
fam("gb_series_key", lambda x: x.groupby(x["a"] % 2)["u"].sum(), group="groupby", ordered=False)
# sort / set_index
fam("sort_u", lambda x: x.sort_values("u"), group="sort")
fam("sort_u_desc", lambda x: x.sort_values("u", ascending=False), group="sort")
fam("sort_b_nulls", lambda x: x.sort_values(["b", "u"]), group="sort")
fam("sort_b_nafirst", lambda x: x.sort_values(["b", "u"], na_position="first"), group="sort")
fam("sort_a_dup", lambda x: x.sort_values("a"), group="sort", ordered=False)
fam("sort_str", lambda x: x.sort_values(["c", "u"]), group="sort")
fam("set_index_u", lambda x: x.set_index("u"), pd_fn=lambda x: x.set_index("u").sort_index(), group="sort")
fam("set_index_a_dup", lambda x: x.set_index("a"), pd_fn=lambda x: x.set_index("a").sort_index(kind="stable"), group="sort", ordered=False)
fam("set_index_np2", lambda x: x.set_index("u", npartitions=2), pd_fn=lambda x: x.set_index("u").sort_index(), group="sort")
# a key that is ALREADY sorted with duplicate runs (g = 0,1,2,2,3,3): the planner's presorted fast path must not be taken
# when a run of equal keys straddles a partition border
_g = lambda x: x.assign(g=x["d"].cumsum())  # noqa: E731
fam("presorted_set_index_loc", lambda x: _g(x).set_index("g").loc[2], group="sort", ordered=False)
fam("presorted_set_index_loc3", lambda x: _g(x).set_index("g").loc[3], group="sort", ordered=False)
fam("presorted_set_index_slice", lambda x: _g(x).set_index("g").loc[2:3], group="sort", ordered=False)
fam("presorted_set_index_all", lambda x: _g(x).set_index("g"), group="sort", ordered=False)
fam("presorted_sort_two_keys_cumsum", lambda x: _g(x).sort_values(["g", "u"])["u"].cumsum(), group="sort")
fam("presorted_sort_two_keys", lambda x: _g(x).sort_values(["g", "u"]), group="sort")
fam("sort_index", lambda x: x.set_index("u").sort_index(ascending=False) if isinstance(x, pd.DataFrame) else x.set_index("u"), pd_fn=lambda x: x.set_index("u").sort_index(), group="sort")
# cumulative
for cum in ("cumsum", "cumprod", "cummax", "cummin"):
    fam(f"cum_{cum}", (lambda cum: lambda x: getattr(num(x), cum)())(cum), group="cumulative")
    fam(f"cum_s_{cum}", (lambda cum: lambda x: getattr(x["b"], cum)())(cum), group="cumulative")
fam("cum_noskip", lambda x: x["b"].cumsum(skipna=False), group="cumulative")
# windows
for k in (1, 2, 3, 5):
    fam(f"shift_{k}", (lambda k: lambda x: num(x).shift(k))(k), group="window")
    fam(f"shift_neg{k}", (lambda k: lambda x: x["u"].shift(-k))(k), group="window")
    fam(f"diff_{k}", (lambda k: lambda x: x["u"].diff(k))(k), group="window")
    fam(f"rolling_{k}_sum", (lambda k: lambda x: x["u"].rolling(k).sum())(k), group="window")
fam("rolling_mp1", lambda x: num(x).rolling(3, min_periods=1).mean(), group="window")
fam("rolling_center", lambda x: x["u"].rolling(3, center=True).max(), group="window")
fam("ffill", lambda x: x["b"].ffill(), group="window")
fam("bfill", lambda x: x["b"].bfill(), group="window")
fam("ffill_frame", lambda x: x.ffill(), group="window")
fam("ffill_limit", lambda x: x["b"].ffill(limit=1), group="window")
fam("map_overlap", lambda x: x[["u"]].map_overlap(_mo, 1, 1), pd_fn=lambda x: _mo(x[["u"]]), group="window")
# dedupe family
fam("drop_dup_subset", lambda x: x.drop_duplicates(subset=["a"])[["a"]], group="dedupe", ordered=False, labelled=False)
fam("drop_dup_full", lambda x: x[["a", "d"]].drop_duplicates(), group="dedupe", ordered=False, labelled=False)
fam("drop_dup_so2", lambda x: x[["a", "d"]].drop_duplicates(split_out=2), pd_fn=lambda x: x[["a", "d"]].drop_duplicates(), group="dedupe", ordered=False, labelled=False)
fam("unique", lambda x: x["a"].unique(), pd_fn=lambda x: pd.Series(x["a"].unique(), name="a"), group="dedupe", ordered=False, labelled=False)
fam("unique_str", lambda x: x["c"].unique(), pd_fn=lambda x: pd.Series(x["c"].unique(), name="c"), group="dedupe", ordered=False, labelled=False)
fam("value_counts", lambda x: x["a"].value_counts(), group="dedupe", ordered=False)
fam("value_counts_str", lambda x: x["c"].value_counts(), group="dedupe", ordered=False)
fam("value_counts_dropna", lambda x: x["c"].value_counts(dropna=False), group="dedupe", ordered=False)
fam("mode", lambda x: x["a"].mode(), group="dedupe", labelled=False)
# nlargest
fam("nlargest_u", lambda x: x.nlargest(3, "u"), group="topn")
fam("nsmallest_u", lambda x: x.nsmallest(2, "u"), group="topn")
fam("s_nlargest", lambda x: x["u"].nlargest(3), group="topn")
fam("nlargest_b_nan", lambda x: x.nlargest(2, ["b", "u"]), group="topn")
fam("head_all", lambda x: x.head(4, npartitions=-1) if not isinstance(x, pd.DataFrame) else x.head(4), group="topn")
fam("tail_sorted", lambda x: x.sort_values("u").tail(2), group="topn")
fam("head_sorted", lambda x: x.sort_values("u").head(2), group="topn")
# loc
fam("loc_slice", lambda x: x.loc[1:4], group="loc", need_known=True)
fam("loc_slice_open", lambda x: x.loc[3:], group="loc", need_known=True)
fam("loc_list", lambda x: x.loc[[0, 3, 4]], group="loc", need_known=True)
fam("loc_elem", lambda x: x.loc[2:2], group="loc", need_known=True)
fam("loc_bool", lambda x: x.loc[x["a"] > 1, ["a", "b"]], group="loc")
fam("loc_cols", lambda x: x.loc[:, ["b", "a"]], group="loc")
# misc
fam("dropna", lambda x: x.dropna(), group="misc")
fam("reset_index", lambda x: x[x["a"] > 1].reset_index(drop=True), group="misc", labelled=False)
fam("describe_count", lambda x: num(x).count(), group="misc")
fam("explode_like", lambda x: x["a"].to_frame(name="q"), group="misc")
fam("repartition_then", lambda x: x.repartition(npartitions=2)["u"].cumsum() if not isinstance(x, pd.DataFrame) else x["u"].cumsum(), group="misc")
fam("filter_empty_then_sum", lambda x: x[x["a"] > 100]["b"].sum(), group="misc")
fam("filter_then_cummax", lambda x: x[x["a"] != 1]["u"].cummax(), group="misc")
fam("filter_then_shift", lambda x: x[x["d"] == 1]["u"].shift(1), group="misc")


def _len(x):
    from dask_expr._collection import new_collection
    from dask_expr._reductions import Len

    return new_collection(Len(x.expr))


def _gb_apply(g):
    return g.cumsum()


def _mo(df):
    return df.rolling(3, center=True, min_periods=1).sum()


F2 = {}


def fam2(name, fn, pd_fn=None, ordered=False, labelled=False, group="join", known_both=False):
    F2[name] = dict(fn=fn, pd=pd_fn or fn, ordered=ordered, labelled=labelled, group=group, known_both=known_both)


for how in ("inner", "left", "right", "outer"):
    fam2(f"merge_col_{how}", (lambda how: lambda x, y: x.merge(y, on="a", how=how))(how))
    fam2(f"merge_idxcol_{how}", (lambda how: lambda x, y: x.merge(y.set_index("a") if isinstance(y, pd.DataFrame) else y.set_index("a"), left_on="a", right_index=True, how=how, suffixes=("_l", "_r")))(how))
    fam2(f"merge_idxidx_{how}", (lambda how: lambda x, y: x[["u", "b"]].merge(y[["e"]], left_index=True, right_index=True, how=how))(how), labelled=True)
def _idx_a(x):
    """Column a becomes the (named) index without changing the partitioning."""
    if isinstance(x, pd.DataFrame):
        return x.set_index("a")
    return x.map_partitions(_set_index_a).clear_divisions()


def _set_index_a(df):
    return df.set_index("a")


# the key is addressed by NAME and is an index level on one input and a column on the other (and on both): both sides must be
# hashed alike whatever holds the key
for how in ("inner", "left", "right", "outer"):
    fam2(f"merge_idxname_col_{how}", (lambda how: lambda x, y: _idx_a(x).merge(y, on="a", how=how))(how))
    fam2(f"merge_col_idxname_{how}", (lambda how: lambda x, y: x.merge(_idx_a(y), on="a", how=how))(how))
fam2("merge_idxname_idxname", lambda x, y: _idx_a(x)[["u"]].merge(_idx_a(y)[["e"]], on="a", how="inner"))
fam2("merge_leftsemi", lambda x, y: x.merge(y[["a"]].drop_duplicates(), on="a", how="leftsemi"), pd_fn=lambda x, y: x[x["a"].isin(y["a"])])
fam2("merge_two_keys", lambda x, y: x.merge(y.assign(d=y["a"] % 2), on=["a", "d"], how="inner"))
fam2("merge_diff_names", lambda x, y: x.merge(y.rename(columns={"a": "k"}), left_on="a", right_on="k", how="left"))
fam2("merge_broadcast", lambda x, y: x.merge(y, on="a", how="inner", broadcast=True), pd_fn=lambda x, y: x.merge(y, on="a", how="inner"))
fam2("merge_indicator", lambda x, y: x.merge(y, on="a", how="outer", indicator=True))
fam2("join_idx", lambda x, y: x[["u"]].join(y[["e"]], how="left"), labelled=True)
fam2("concat_rows", lambda x, y: _concat([x, y]), ordered=True, labelled=True, group="concat")
fam2("concat_rows_inner", lambda x, y: _concat([x, y], join="inner"), ordered=True, labelled=True, group="concat")
fam2("concat_three", lambda x, y: _concat([x, y, x]), ordered=True, labelled=True, group="concat")
fam2("concat_cols", lambda x, y: _concat([x[["u"]], y[["e"]]], axis=1), ordered=True, labelled=True, group="concat", known_both=True)
fam2("concat_interleave", lambda x, y: _concat([x, y], interleave_partitions=True) if not isinstance(x, pd.DataFrame) else pd.concat([x, y]).sort_index(kind="stable"), ordered=False, labelled=True, group="concat", known_both=True)
fam2("binop_add", lambda x, y: x["u"] + y["e"], ordered=True, labelled=True, group="align", known_both=True)
fam2("binop_frame", lambda x, y: x[["a", "b"]] + y[["a", "b"]], ordered=True, labelled=True, group="align", known_both=True)
fam2("binop_where", lambda x, y: x["u"].where(y["e"] > 15), ordered=True, labelled=True, group="align", known_both=True)
fam2("binop_gt_filter", lambda x, y: x[x["u"] > y["e"] / 10], ordered=True, labelled=True, group="align", known_both=True)
fam2("combine_first", lambda x, y: y[["b"]].combine_first(x[["b"]]), ordered=True, labelled=True, group="align", known_both=True)
fam2("isin_series", lambda x, y: x[x["a"].isin([1, 5])].merge(y, on="a"), group="join")


def _concat(objs, **kw):
    if isinstance(objs[0], (pd.DataFrame, pd.Series)):
        return pd.concat(objs, **kw)
    import dask_expr as dx

    return dx.concat(objs, **kw)


REFUSALS = ("Partition size is less than", "overlapping window size", "not supported", "NotImplemented", "unknown divisions", "Unable to", "cannot", "Cannot")


def evaluate(case):
    try:
        with time_limit(90):
            return _evaluate(case)
    except CaseTimeout as e:
        return {"status": "viol", "viols": [{"kind": "timeout", "detail": str(e)}], "info": {}}


def _evaluate(case):
    two = "fam2" in case
    n = case["n"]
    L = table_L(n)
    info, viols = {}, []
    spec = F2[case["fam2"]] if two else F1[case["fam"]]
    x, kx = build_input(L, case["cuts"], case.get("known", False))
    Lp = tables.dask_dtypes(L)
    if two:
        R = table_R(case.get("m", n - 1))
        y, ky = build_input(R, case["cuts2"], case.get("known", False))
        Rp = tables.dask_dtypes(R)
        if spec["known_both"] and not (kx and ky):
            return {"status": "rejected", "viols": [], "info": {"why": "needs known divisions"}}
    elif spec["need_known"] and not kx:
        return {"status": "rejected", "viols": [], "info": {"why": "needs known divisions"}}
    try:
        exp = spec["pd"](Lp, Rp) if two else spec["pd"](Lp)
    except Exception as e:  # noqa: BLE001
        return {"status": "inapplicable", "viols": [], "info": {"why": "pandas: " + short(e)}}
    with dask.config.set({"dataframe.shuffle.method": case.get("method", "tasks")}):
        try:
            q = spec["fn"](x, y) if two else spec["fn"](x)
            got = core.run(q.optimize(fuse=case.get("fuse", True)).expr) if hasattr(q, "optimize") else q
        except CaseTimeout:
            raise
        except Exception as e:  # noqa: BLE001
            info["refused"] = exc_kind(e)
            info["refusal_msg"] = short(e, 100)
            # the property only constrains successful results
            return {"status": "refused", "viols": [], "info": info}
    r = compare(exp, got, ordered=spec["ordered"], labelled=spec["labelled"])
    if r:
        viols.append({"kind": f"{spec['group']}:{r.split(' ')[0]}", "detail": r})
    nonempty = sum(1 for a, b in zip([0] + case["cuts"], case["cuts"] + [n]) if b > a)
    info["nontrivial"] = nonempty >= 2
    return {"status": "viol" if viols else "ok", "viols": viols, "info": info}


def key(case):
    f = case.get("fam2") or case.get("fam")
    k = f"{f}|n={case['n']}|cuts={case['cuts']}"
    if "cuts2" in case:
        k += f"|cuts2={case['cuts2']}|m={case.get('m')}"
    k += f"|known={case.get('known', False)}"
    if case.get("method", "tasks") != "tasks":
        k += "|disk"
    return k


def shrink(case):
    for fld in ("cuts", "cuts2"):
        c = case.get(fld)
        if c:
            for i in range(len(c)):
                yield dict(case, **{fld: c[:i] + c[i + 1 :]})
    if case.get("known"):
        yield dict(case, known=False)


def run(ctx):
    quick = ctx.tier == "quick"
    n = 6 if quick else 8
    cuts = all_cuts(n)
    cases = []
    for name in F1:
        for c in cuts:
            for known in (False, True):
                cases.append({"fam": name, "n": n, "cuts": c, "known": known})
            for variant in ("front", "mid", "back"):
                if quick and len(c) not in (0, 1, 2, n - 1):
                    continue
                cases.append({"fam": name, "n": n, "cuts": with_empties(c, n, variant), "known": False})
    n2 = 5 if quick else 6
    m2 = 4 if quick else 5
    cutsL, cutsR = all_cuts(n2), all_cuts(m2)
    for name in F2:
        for c1 in cutsL:
            for c2 in cutsR:
                for known in ((False, True) if F2[name]["group"] != "join" or not quick else (False,)):
                    cases.append({"fam2": name, "n": n2, "m": m2, "cuts": c1, "cuts2": c2, "known": known})
        for c1 in (with_empties(cutsL[3], n2, "front"), with_empties(cutsL[-1], n2, "mid")):
            for c2 in (with_empties(cutsR[2], m2, "back"), cutsR[0]):
                cases.append({"fam2": name, "n": n2, "m": m2, "cuts": c1, "cuts2": c2, "known": False})
    # disk shuffle for the shuffle-based families on a few layouts
    for name in ("gb_split_out", "sort_u", "set_index_u", "drop_dup_so2", "unique"):
        for c in cuts[:: max(1, len(cuts) // 8)]:
            cases.append({"fam": name, "n": n, "cuts": c, "known": False, "method": "disk"})
    ctx.rule = (f"{len(F1)} single-input operator instances x ALL {len(cuts)} contiguous cuts of the {n}-row table x known/unknown divisions x empty partitions "
                f"inserted front/middle/back; {len(F2)} two-input instances x ALL pairs of cuts ({len(cutsL)} x {len(cutsR)}) chosen independently for each side; "
                "oracle = pandas on the concatenated input held in dask's dtypes; an explicit refusal is accepted and counted; non-trivial = >= 2 non-empty partitions")
    res = ctx.map(evaluate, cases, chunk=96)
    ctx.states = len(cases)
    ctx.transitions = len(cases)
    refused = {}
    okfam = {}
    for case, r in res:
        f = case.get("fam2") or case.get("fam")
        if r.get("info", {}).get("nontrivial"):
            ctx.nontrivial += 1
        if r["status"] == "refused":
            refused.setdefault(f, {}).setdefault(r["info"]["refused"], 0)
            refused[f][r["info"]["refused"]] += 1
        if r["status"] == "ok":
            okfam[f] = okfam.get(f, 0) + 1
    vac = sorted(f for f in list(F1) + list(F2) if not okfam.get(f))
    ctx.cov["families_never_successful"] = vac
    ctx.cov["refusals_per_family"] = refused
    ctx.cov["families"] = len(F1) + len(F2)
    for c in (cases[5], cases[len(cases) // 2], cases[-1]):
        ctx.sample(key(c))
    ctx.assumptions += ["approximate algorithms (quantile, median_approximate, nunique_approx, describe percentiles) are not value-compared",
                        "groupby output order is compared only with sort=True (dask-expr leaves it unspecified otherwise)"]
    return ctx.finish(evaluate, shrink, key)
