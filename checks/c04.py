"""C04 — column pruning never changes a result."""
import itertools

from mc import core, explore, ops as O, tables
from mc.core import compare, exc_kind, optimize_until, short, time_limit, CaseTimeout
from mc.core import run as run_plan
from mc.env import dask, pd, np
from mc.structkey import ekey

ID = "C04"
PADS = ["0pad", "bbpad", "zzpad"]


def widened(pdf):
    w = pdf.copy()
    cols = list(w.columns)
    w.insert(0, "0pad", 7)
    # between the real columns (and sorting between 'b' and 'c')
    w.insert(min(3, len(w.columns)), "bbpad", 7)
    w["zzpad"] = 7
    return w


tables.PDFS["TW"] = widened(tables.T)
tables.PDFS["T2W"] = widened(tables.T2)


def _has_pad(label):
    if isinstance(label, tuple):
        return any(_has_pad(x) for x in label)
    return isinstance(label, str) and "pad" in label


def drop_pads(obj):
    if isinstance(obj, pd.DataFrame):
        obj = obj[[c for c in obj.columns if not _has_pad(c)]] if any(_has_pad(c) for c in obj.columns) else obj
        if len(obj.index) and any(_has_pad(i) for i in obj.index):
            obj = obj[[not _has_pad(i) for i in obj.index]]
        return obj
    if isinstance(obj, pd.Series):
        if len(obj.index) and obj.index.dtype.kind in "OUT" or str(obj.index.dtype) in ("str", "string", "object"):
            try:
                keep = [not _has_pad(i) for i in obj.index]
                if not all(keep):
                    return obj[keep]
            except Exception:  # noqa: BLE001
                pass
        return obj
    return obj


ALLCOLS = {"size", "mem_usage", "describe", "len_cols", "map_partitions", "gb_a_apply", "dropdup", "unique", "mode", "value_counts", "nunique", "count", "sum", "mean", "min", "max", "var", "std", "idxmax", "concat_ax1"}
# ops whose *meaning* involves every column implicitly in a way constant extra columns can change
WIDEN_EXCLUDE = {"size", "mem_usage", "describe", "squeeze", "explode", "sample", "get_dummies", "pivot_table"}

# --------------------------------------------------------------------------
# (ii) widening metamorphosis over the E1 program space
# --------------------------------------------------------------------------


def evaluate(case):
    try:
        with time_limit(90):
            if case.get("mode") == "sel":
                return eval_sel(case)
            return eval_widen(case)
    except CaseTimeout as e:
        return {"status": "viol", "viols": [{"kind": "timeout", "detail": str(e)}], "info": {}}


def _build(srcname, ops):
    return O.build(tables.source(srcname), ops)


def eval_widen(case):
    ops = case["ops"]
    info, viols = {}, []
    if any(o in WIDEN_EXCLUDE for o in ops):
        return {"status": "rejected", "viols": [], "info": {"why": "op involves all columns by definition"}}
    try:
        q = _build(case["src"], ops)
        info["kind"] = O.kind_of(q)
        info["skey"] = ekey(q.expr)
    except CaseTimeout:
        raise
    except Exception as e:  # noqa: BLE001
        return {"status": "rejected", "viols": [], "info": {"why": short(e)}}
    typ = O.typing_of(ops)
    name, _, lay = case["src"].partition(":")
    wsrc = f"{name}W:{lay}"
    # T2 inside merge ops is widened as well through the op itself? no: only the main input is widened
    with dask.config.set({"dataframe.shuffle.method": "tasks"}):
        try:
            base = run_plan(q.optimize(fuse=False).expr)
        except CaseTimeout:
            raise
        except Exception as e:  # noqa: BLE001
            return {"status": "inapplicable", "viols": [], "info": {"why": "base: " + short(e), **info}}
        try:
            qw = _build(wsrc, ops)
        except CaseTimeout:
            raise
        except Exception as e:  # noqa: BLE001
            return {"status": "inapplicable", "viols": [], "info": {"why": "widened build: " + short(e), **info}}
        try:
            ref_w = run_plan(qw.expr.lower_completely(), lower=False)
        except CaseTimeout:
            raise
        except Exception as e:  # noqa: BLE001
            return {"status": "inapplicable", "viols": [], "info": {"why": "widened unoptimised: " + short(e), **info}}
        try:
            wide = run_plan(qw.optimize(fuse=False).expr)
        except CaseTimeout:
            raise
        except Exception as e:  # noqa: BLE001
            viols.append({"kind": "widened_raises:" + exc_kind(e), "detail": short(e)})
            return {"status": "viol", "viols": viols, "info": info}
    if typ.defined and not typ.approx:
        a, b = drop_pads(base), drop_pads(wide)
        if True:
            r = compare(a, b, ordered=typ.ordered, labelled=typ.labelled, check_kinds=False)
            if r:
                # is it the optimiser or the query itself that depends on the extra columns?
                r0 = compare(drop_pads(ref_w), b, ordered=typ.ordered, labelled=typ.labelled, check_kinds=False)
                if r0:
                    viols.append({"kind": "widened_optimised_vs_unoptimised:" + r0.split(" ")[0], "detail": r0})
                else:
                    info["query_depends_on_all_columns"] = True
    # source pruning really happened?
    info["nontrivial"] = True
    return {"status": "viol" if viols else "ok", "viols": viols, "info": info}


# --------------------------------------------------------------------------
# (i) exhaustive column selections x sharing pattern
# --------------------------------------------------------------------------

SHARE = ["one", "pred", "binop", "assign", "two_selects"]


def selections(cols, maxlen):
    out = [("scalar", c) for c in cols]
    for n in range(1, maxlen + 1):
        for p in itertools.permutations(cols, n):
            out.append(("list", list(p)))
    if len(cols) >= 2:
        out.append(("list", [cols[0], cols[1], cols[0]]))
        out.append(("list", [cols[-1], cols[-1]]))
    return out


def apply_share(y, sel, share, pandas):
    kind, s = sel
    cols = [s] if kind == "scalar" else list(s)
    ycols = list(y.columns)
    num = [c for c in ycols if str(y.dtypes[c] if pandas else y._meta.dtypes[c]) in ("int64", "float64")]
    if share == "one":
        return y[s]
    if share == "pred":
        if not num:
            raise KeyError("no numeric column")
        k = num[0]
        return y[y[k] >= y[k].min()][s]
    if share == "binop":
        if kind != "list" or len(cols) < 2 or cols[0] not in num or cols[-1] not in num:
            raise KeyError("binop needs two numeric columns")
        return y[cols[0]] + y[cols[-1]]
    if share == "assign":
        if not num or kind != "list":
            raise KeyError("no numeric column")
        z = y.assign(nn=y[num[-1]] * 2)
        return z[cols + ["nn"]]
    if share == "two_selects":
        if kind != "list":
            raise KeyError("list only")
        a, b = y[cols], y[cols[::-1][:1]]
        if pandas:
            return pd.concat([a, b.add_suffix("_2")], axis=1)
        import dask_expr as dx

        return dx.concat([a, b.add_suffix("_2")], axis=1)
    raise ValueError(share)


def producer_columns(opname):
    try:
        y = O.OPS[opname].apply(tables.source("T:3"))
        if O.kind_of(y) != "df":
            return None
        return [c for c in y.columns]
    except Exception:  # noqa: BLE001
        return None


def eval_sel(case):
    info, viols = {}, []
    sel = (case["selkind"], case["sel"])
    op_ = O.OPS[case["producer"]]
    typ = O.typing_of([case["producer"]])
    with dask.config.set({"dataframe.shuffle.method": "tasks"}):
        try:
            y = op_.apply(tables.source(case.get("src", "T:3")))
            q = apply_share(y, sel, case["share"], False)
        except CaseTimeout:
            raise
        except Exception as e:  # noqa: BLE001
            return {"status": "rejected", "viols": [], "info": {"why": short(e)}}
        try:
            ref_plan = q.expr.lower_completely()
            ref = run_plan(ref_plan, lower=False)
        except CaseTimeout:
            raise
        except Exception as e:  # noqa: BLE001
            return {"status": "inapplicable", "viols": [], "info": {"why": "unoptimised: " + short(e)}}
        try:
            opt = q.optimize(fuse=False)
            got = run_plan(opt.expr)
        except CaseTimeout:
            raise
        except Exception as e:  # noqa: BLE001
            return {"status": "viol", "viols": [{"kind": "opt_raises:" + exc_kind(e), "detail": short(e)}], "info": info}
    ordered = typ.ordered and case["share"] != "two_selects" or (typ.ordered)
    if typ.defined:
        r = compare(ref, got, ordered=typ.ordered, labelled=typ.labelled)
        if r:
            viols.append({"kind": "mismatch:" + r.split(" ")[0], "detail": r})
    # no duplicated / missing labels in the result w.r.t. the request
    if isinstance(got, pd.DataFrame) and case["share"] == "one" and case["selkind"] == "list":
        if [str(c) for c in got.columns] != [str(c) for c in case["sel"]]:
            viols.append({"kind": "result_columns", "detail": f"{list(got.columns)} requested {case['sel']}"})
    info["nontrivial"] = ekey(opt.expr) != ekey(ref_plan)
    return {"status": "viol" if viols else "ok", "viols": viols, "info": info}


def key(case):
    if case.get("mode") == "sel":
        return f"sel|{case['producer']}|{case['selkind']}:{case['sel']}|{case['share']}"
    return "widen|" + explore.prog_key({"src": case["src"], "ops": case["ops"]})


def shrink(case):
    if case.get("mode") == "sel":
        if case["share"] != "one":
            yield dict(case, share="one")
        if case["selkind"] == "list" and len(case["sel"]) > 1:
            for i in range(len(case["sel"])):
                yield dict(case, sel=case["sel"][:i] + case["sel"][i + 1 :])
    else:
        for c in explore.shrink_prog({"src": case["src"], "ops": case["ops"]}):
            yield dict(case, **c)


def run(ctx):
    quick = ctx.tier == "quick"
    ctx.rule = ("(i) for every frame-producing operation of the alphabet (incl. those with implicit key columns) x ALL ordered column selections up to "
                f"length {2 if quick else 3} of its output (scalar and list, plus repeated labels) x sharing pattern (sole consumer, consumer + predicate on the same "
                "frame, two series of one frame, assign + select, two different selections of one frame): optimised vs unoptimised; (ii) widening "
                "metamorphosis over the E1 program space: every program is run on the input widened with unused constant columns sorting before / between / after "
                "the real ones and must give the same result once those columns are dropped; non-trivial = optimiser changed the plan")
    # (ii)
    tiers = [2, 2]
    res = explore.bfs(ctx, evaluate, ["T:3"], tiers)
    dep = 0
    for case, r in res:
        dep += bool(r.get("info", {}).get("query_depends_on_all_columns"))
        if r["status"] == "ok" and len(case["ops"]) == 2:
            ctx.sample(key(case), cap=6)
    ctx.cov["programs_whose_own_meaning_depends_on_all_columns"] = dep
    # (i)
    from mc.runner import pmap

    # tier-3 producers (expression classes with projection rules of their own: cov/corr, as-of / semi / broadcast joins, resample,
    # groupby windows, aligned operations ...) take part too; in the quick tier with the two sharing patterns that decide most rules
    prods = [o.name for o in O.alphabet(3) if o.inp in ("df", "any")]
    colres = pmap(producer_columns, prods, chunk=8)
    cases = []
    for name, cols in colres:
        if not cols or len(cols) > 8:
            continue
        cols = cols[:5]
        shares = SHARE if (O.OPS[name].tier <= 2 or not quick) else SHARE[:2]
        for kind, s in selections(cols, 2 if quick else 3):
            for share in shares:
                cases.append({"mode": "sel", "producer": name, "selkind": kind, "sel": s, "share": share})
    res2 = ctx.map(evaluate, cases, chunk=64)
    ctx.transitions += len(cases)
    for case, r in res2:
        if r["status"] == "ok":
            ctx.states += 1
            if r["info"].get("nontrivial"):
                ctx.nontrivial += 1
    ctx.cov["selection_cases"] = len(cases)
    ctx.cov["producers"] = len([1 for _, c in colres if c])
    if cases:
        ctx.sample(key(cases[len(cases) // 2]))
    ctx.assumptions += ["extra columns are constant non-null integers so that row-wise semantics of all-column operations (dropna, drop_duplicates) are unaffected",
                        "operations whose meaning mentions every column (size, describe, memory usage, ...) are excluded from the widening comparison"]
    return ctx.finish(evaluate, shrink, key)
