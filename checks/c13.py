"""C13 — repartitioning preserves rows and order and honours the requested layout."""
import itertools

from mc import core, tables
from mc.core import compare, exc_kind, short, time_limit, CaseTimeout, run_parts
from mc.env import dask, pd, np

ID = "C13"


def admissible(dom):
    """All tuples check_divisions admits over the ordered domain: strictly increasing
    with an optionally repeated last value, incl. single-value ranges (v, v)."""
    out = []
    vals = list(dom)
    for r in range(1, len(vals) + 1):
        for comb in itertools.combinations(vals, r):
            if r >= 2:
                out.append(tuple(comb))
            out.append(tuple(comb) + (comb[-1],))
    return sorted(set(out), key=lambda t: (len(t), t))


def inadmissible(dom):
    v = list(dom)
    return [(v[1], v[0]), (v[0], v[0], v[1]), (v[0], v[2], v[1]), (v[0], v[1], v[1], v[2])]


def conv(x, dtype):
    if dtype == "int":
        return int(x)
    if dtype == "float":
        return x * 0.5
    if dtype == "str":
        return "abcdefgh"[x]
    if dtype == "dt":
        return pd.Timestamp("2020-01-01") + pd.Timedelta(days=int(x))
    raise ValueError(dtype)


def make_input(old, dtype, dup=2):
    """Frame whose index holds every label of the old range `dup` times, partitioned
    exactly along `old` (built with from_map: no repartition code involved)."""
    lo, hi = old[0], old[-1]
    labels = [x for x in range(lo, hi + 1) for _ in range(dup)]
    idx = pd.Index([conv(x, dtype) for x in labels], name="k")
    pdf = pd.DataFrame({"v": range(len(labels)), "w": [x * 10 for x in labels]}, index=idx)
    parts = []
    n = len(old) - 1
    for i in range(n):
        a, b = old[i], old[i + 1]
        last = i == n - 1
        sel = [j for j, x in enumerate(labels) if (a <= x < b) or (last and x == b)]
        parts.append(pdf.iloc[sel])
    divs = tuple(conv(x, dtype) for x in old)
    return pdf, tables.from_parts(parts, divs)


def in_range(part, a, b, last):
    if len(part) == 0:
        return True
    lo, hi = part.index.min(), part.index.max()
    return (a <= lo) and (hi <= b if last else hi < b)


def evaluate(case):
    try:
        with time_limit(60):
            mode = case["mode"]
            if mode == "div":
                return eval_div(case)
            if mode == "count":
                return eval_count(case)
            if mode == "size":
                return eval_size(case)
            if mode == "two":
                return eval_two(case)
            if mode == "freq":
                return eval_freq(case)
            if mode == "align":
                return eval_align(case)
            raise ValueError(mode)
    except CaseTimeout as e:
        return {"status": "viol", "viols": [{"kind": "timeout", "detail": str(e)}], "info": {}}


def _rows_equal(pdf, parts, viols, what):
    got = pd.concat(parts) if parts else pdf.iloc[:0]
    r = compare(pdf, got, ordered=True, labelled=True)
    if r:
        k = r.split(" ")[0]
        viols.append({"kind": f"rows_{k}", "detail": f"{what}: {r}"})
        return False
    return True


def eval_div(case):
    old, new, force, dtype = tuple(case["old"]), tuple(case["new"]), case["force"], case["dtype"]
    viols, info = [], {}
    pdf, df = make_input(old, dtype)
    newc = [conv(x, dtype) for x in new]
    legal = (new[0] == old[0] and new[-1] == old[-1]) or (force and new[0] <= old[0] and new[-1] >= old[-1])
    if case.get("bad"):
        legal = False
    try:
        q = df.repartition(divisions=newc, force=force)
        plan = q.optimize(fuse=False)
        parts = run_parts(plan.expr)
    except CaseTimeout:
        raise
    except ValueError as e:
        if legal:
            viols.append({"kind": "legal_request_refused", "detail": f"ValueError: {short(e)}"})
        info["refused"] = True
        return {"status": "viol" if viols else "ok", "viols": viols, "info": info}
    except Exception as e:  # noqa: BLE001
        if legal:
            viols.append({"kind": "legal_request_raises:" + exc_kind(e), "detail": short(e)})
        else:
            viols.append({"kind": "illegal_request_wrong_error:" + exc_kind(e), "detail": short(e)})
        return {"status": "viol", "viols": viols, "info": info}
    info["accepted"] = True
    ok = _rows_equal(pdf, parts, viols, "output")
    if not legal:
        if not ok:
            viols = [{"kind": "illegal_request_accepted_and_rows_changed", "detail": viols[0]["detail"]}]
        # an illegal request that is accepted but keeps all rows in order is tolerated (nothing dropped/duplicated)
        return {"status": "viol" if viols else "ok", "viols": viols, "info": info}
    same = tuple(newc) == tuple(conv(x, dtype) for x in old)
    if tuple(plan.divisions) != tuple(newc):
        viols.append({"kind": "reported_divisions", "detail": f"{plan.divisions} != requested {tuple(newc)}"})
    if len(parts) != len(newc) - 1:
        viols.append({"kind": "npartitions", "detail": f"{len(parts)} partitions for {len(newc)} divisions"})
    else:
        for i, p in enumerate(parts):
            if not in_range(p, newc[i], newc[i + 1], i == len(parts) - 1):
                viols.append({"kind": "partition_outside_divisions", "detail": f"partition {i} index {p.index.min()}..{p.index.max()} not in [{newc[i]}, {newc[i+1]}]"})
                break
    info["nontrivial"] = not same
    return {"status": "viol" if viols else "ok", "viols": viols, "info": info}


def _cut_even(n_rows, n):
    return [round(i * n_rows / n) for i in range(1, n)]


def eval_count(case):
    n_in, n_out, known, empties = case["n_in"], case["n_out"], case["known"], case["empties"]
    viols, info = [], {}
    pdf = tables.T_dup_idx if case.get("dup") else tables.T
    cuts = _cut_even(len(pdf), n_in)
    if empties and n_in >= 3:
        cuts[0] = 0
        cuts[-1] = cuts[-2] if len(cuts) > 1 else cuts[-1]
        cuts = sorted(cuts)
    parts_in = tables.cut(pdf, cuts)
    divs = None
    if known and not empties and not case.get("dup"):
        edges = [0] + cuts + [len(pdf)]
        divs = [pdf.index[e] for e in edges[:-1]] + [pdf.index[-1]]
        if len(set(divs[:-1])) != len(divs[:-1]):
            divs = None
    df = tables.from_parts(parts_in, divs)
    try:
        q = df.repartition(npartitions=n_out)
        plan = q.optimize(fuse=case.get("fuse", False))
        parts = run_parts(plan.expr)
    except CaseTimeout:
        raise
    except Exception as e:  # noqa: BLE001
        viols.append({"kind": "raises:" + exc_kind(e), "detail": short(e)})
        return {"status": "viol", "viols": viols, "info": info}
    _rows_equal(pdf, parts, viols, f"{n_in}->{n_out}")
    if len(parts) != plan.npartitions:
        viols.append({"kind": "npartitions_reported", "detail": f"{len(parts)} computed, {plan.npartitions} reported"})
    if plan.npartitions != n_out:
        # with known numeric divisions the interpolated divisions may collapse; anything else must honour the count
        if divs is None:
            viols.append({"kind": "npartitions_not_honoured", "detail": f"requested {n_out}, got {plan.npartitions}"})
        else:
            info["collapsed"] = True
    if q.npartitions != plan.npartitions:
        viols.append({"kind": "npartitions_logical_vs_physical", "detail": f"logical {q.npartitions} physical {plan.npartitions}"})
    if plan.known_divisions:
        d = plan.divisions
        for i, p in enumerate(parts):
            if not in_range(p, d[i], d[i + 1], i == len(parts) - 1):
                viols.append({"kind": "partition_outside_divisions", "detail": f"partition {i} not in [{d[i]}, {d[i+1]}]"})
                break
    info["nontrivial"] = n_in != n_out
    return {"status": "viol" if viols else "ok", "viols": viols, "info": info}


def eval_size(case):
    viols, info = [], {}
    pdf = tables.T[["a", "u", "b", "d"]]
    df = tables.from_parts(tables.cut(pdf, _cut_even(len(pdf), case["n_in"])))
    try:
        q = df.repartition(partition_size=case["size"])
        plan = q.optimize(fuse=False)
        parts = run_parts(plan.expr)
    except CaseTimeout:
        raise
    except Exception as e:  # noqa: BLE001
        viols.append({"kind": "raises:" + exc_kind(e), "detail": short(e)})
        return {"status": "viol", "viols": viols, "info": info}
    _rows_equal(pdf, parts, viols, f"size {case['size']}")
    if len(parts) != plan.npartitions:
        viols.append({"kind": "npartitions_reported", "detail": f"{len(parts)} computed, {plan.npartitions} reported"})
    info["nontrivial"] = len(parts) != case["n_in"]
    return {"status": "viol" if viols else "ok", "viols": viols, "info": info}


def eval_two(case):
    """Two different repartition requests on ONE frame evaluated in one graph: each must still return the frame."""
    import dask_expr as dx

    viols, info = [], {}
    pdf = tables.T[["a", "u", "b", "d"]]
    cuts = _cut_even(len(pdf), case["n_in"])
    divs = None
    if case.get("known"):
        edges = [0] + cuts + [len(pdf)]
        divs = [pdf.index[e] for e in edges[:-1]] + [pdf.index[-1]]
    df = tables.from_parts(tables.cut(pdf, cuts), divs)
    try:
        qs = [df.repartition(**{case["by"]: v}) for v in case["values"]]
        plan = dx.concat(qs).optimize(fuse=case.get("fuse", False))
        nparts = [q.optimize(fuse=False).npartitions for q in qs]
        parts = run_parts(plan.expr)
    except CaseTimeout:
        raise
    except Exception as e:  # noqa: BLE001
        viols.append({"kind": "raises:" + exc_kind(e), "detail": short(e)})
        return {"status": "viol", "viols": viols, "info": info}
    if len(parts) != sum(nparts):
        viols.append({"kind": "two_npartitions", "detail": f"{len(parts)} partitions for {nparts}"})
    else:
        _rows_equal(pdf, parts[: nparts[0]], viols, f"first of {case['values']}")
        _rows_equal(pdf, parts[nparts[0]:], viols, f"second of {case['values']}")
    info["nontrivial"] = True
    return {"status": "viol" if viols else "ok", "viols": viols, "info": info}


def eval_freq(case):
    viols, info = [], {}
    idx = pd.date_range("2021-01-01", periods=10, freq="D", name="ti")
    pdf = pd.DataFrame({"v": range(20)}, index=idx.repeat(2))
    import dask_expr as dx

    df = dx.from_pandas(pdf, npartitions=case["n_in"])
    try:
        q = df.repartition(freq=case["freq"])
        plan = q.optimize(fuse=False)
        parts = run_parts(plan.expr)
    except CaseTimeout:
        raise
    except Exception as e:  # noqa: BLE001
        viols.append({"kind": "raises:" + exc_kind(e), "detail": short(e)})
        return {"status": "viol", "viols": viols, "info": info}
    _rows_equal(pdf, parts, viols, f"freq {case['freq']}")
    d = plan.divisions
    if len(parts) != len(d) - 1:
        viols.append({"kind": "npartitions_reported", "detail": f"{len(parts)} computed, {len(d) - 1} reported"})
    else:
        for i, p in enumerate(parts):
            if not in_range(p, d[i], d[i + 1], i == len(parts) - 1):
                viols.append({"kind": "partition_outside_divisions", "detail": f"partition {i} not in [{d[i]}, {d[i+1]}]"})
                break
    info["nontrivial"] = True
    return {"status": "viol" if viols else "ok", "viols": viols, "info": info}


def eval_align(case):
    """Binary op of two frames partitioned along different division vectors."""
    viols, info = [], {}
    d1, d2 = tuple(case["d1"]), tuple(case["d2"])
    p1, f1 = make_input(d1, "int", dup=1)
    p2, f2 = make_input(d2, "int", dup=1)
    p2 = p2 * 3
    f2 = f2 * 3
    try:
        q = f1 + f2 if case["op"] == "add" else f1["v"].where(f2["v"] > 3)
        res = core.run(q.optimize(fuse=False).expr)
        exp = p1 + p2 if case["op"] == "add" else p1["v"].where(p2["v"] > 3)
    except CaseTimeout:
        raise
    except Exception as e:  # noqa: BLE001
        viols.append({"kind": "raises:" + exc_kind(e), "detail": short(e)})
        return {"status": "viol", "viols": viols, "info": info}
    r = compare(exp, res, ordered=True, labelled=True)
    if r:
        viols.append({"kind": "aligned_result_" + r.split(" ")[0], "detail": r})
    info["nontrivial"] = d1 != d2
    return {"status": "viol" if viols else "ok", "viols": viols, "info": info}


def key(case):
    m = case["mode"]
    if m == "div":
        return f"div|{case['dtype']}|old={tuple(case['old'])}|new={tuple(case['new'])}|force={case['force']}" + ("|bad" if case.get("bad") else "")
    return m + "|" + ",".join(f"{k}={case[k]}" for k in sorted(case) if k != "mode")


def shrink(case):
    if case["mode"] == "div":
        old, new = list(case["old"]), list(case["new"])
        for i in range(1, len(old) - 1):
            c = dict(case)
            c["old"] = old[:i] + old[i + 1 :]
            yield c
        for i in range(1, len(new) - 1):
            c = dict(case)
            c["new"] = new[:i] + new[i + 1 :]
            yield c
        if case["dtype"] != "int":
            c = dict(case)
            c["dtype"] = "int"
            yield c


def run(ctx):
    quick = ctx.tier == "quick"
    dom = range(0, 5) if quick else range(0, 6)
    adm = admissible(dom)
    cases = []
    dtypes = ["int", "float", "str", "dt"]
    for dt in dtypes:
        olds = adm if (dt == "int" or not quick) else [t for t in adm if len(t) <= 3]
        for old in olds:
            for new in adm:
                for force in (False, True):
                    cases.append({"mode": "div", "old": list(old), "new": list(new), "force": force, "dtype": dt})
        for old in adm[:12]:
            for new in inadmissible(dom):
                cases.append({"mode": "div", "old": list(old), "new": list(new), "force": True, "dtype": dt, "bad": True})
    nmax = 8 if quick else 10
    for n_in in range(1, nmax + 1):
        for n_out in range(1, nmax + 1):
            for known in (False, True):
                for empties in (False, True):
                    cases.append({"mode": "count", "n_in": n_in, "n_out": n_out, "known": known, "empties": empties})
            cases.append({"mode": "count", "n_in": n_in, "n_out": n_out, "known": False, "empties": False, "dup": True})
            cases.append({"mode": "count", "n_in": n_in, "n_out": n_out, "known": True, "empties": False, "fuse": True})
    for n_in in (1, 2, 3, 6):
        for size in ("50B", "100B", "200B", "300B", "500B", "1kB", "10kB"):
            cases.append({"mode": "size", "n_in": n_in, "size": size})
    sizes = ("50B", "100B", "200B", "300B", "1kB")
    for n_in in (1, 2, 3, 6):
        for known in (False, True):
            for a in sizes:
                for b in sizes:
                    if a != b:
                        cases.append({"mode": "two", "n_in": n_in, "by": "partition_size", "values": [a, b], "known": known})
            for a in range(1, 7):
                for b in range(1, 7):
                    if a != b:
                        cases.append({"mode": "two", "n_in": n_in, "by": "npartitions", "values": [a, b], "known": known})
        for d1 in ([0, 11], [0, 4, 11], [0, 6, 11], [0, 2, 9, 11]):
            for d2 in ([0, 11], [0, 4, 11], [0, 6, 11], [0, 2, 9, 11]):
                if d1 != d2:
                    cases.append({"mode": "two", "n_in": n_in, "by": "divisions", "values": [d1, d2], "known": True})
    for n_in in (1, 2, 3, 5):
        for freq in ("1D", "2D", "3D", "7D"):
            cases.append({"mode": "freq", "n_in": n_in, "freq": freq})
    small = [t for t in admissible(range(0, 4)) if t[-1] != t[-2] or len(t) == 2]
    small = [t for t in small if len(set(t)) == len(t)]
    for d1 in small:
        for d2 in small:
            for op in ("add", "where"):
                cases.append({"mode": "align", "d1": list(d1), "d2": list(d2), "op": op})
    ctx.rule = (f"all (old divisions, new divisions, force) triples over the ordered domain {list(dom)} ({len(adm)} admissible tuples incl. repeated last value "
                "and single-value ranges) x index dtypes int/float/str/datetime with every label duplicated, plus tuples check_divisions rejects; all (n_in, n_out) "
                f"up to {nmax} x known/unknown divisions x empty partitions; partition_size thresholds; freq grid; all ordered pairs of different requests (sizes, counts, divisions) on one frame in ONE graph; alignment binops over all pairs of division vectors; "
                "non-trivial = the request changes the layout")
    res = ctx.map(evaluate, cases, chunk=200)
    ctx.states = len(cases)
    ctx.transitions = len(cases)
    acc = ref = 0
    for case, r in res:
        if r.get("info", {}).get("nontrivial"):
            ctx.nontrivial += 1
        acc += bool(r.get("info", {}).get("accepted"))
        ref += bool(r.get("info", {}).get("refused"))
    for c in (cases[0], cases[len(cases) // 3], cases[-1]):
        ctx.sample(key(c))
    ctx.cov["division_requests_accepted"] = acc
    ctx.cov["division_requests_refused"] = ref
    ctx.cov["admissible_tuples"] = len(adm)
    ctx.assumptions += ["inputs are built with from_map and explicit divisions, so the layout under test is exactly the enumerated one",
                        "an illegal request that is accepted but returns exactly the input rows in order is tolerated"]
    return ctx.finish(evaluate, shrink, key)
