"""C17 — materialisation boundaries are transparent."""
from mc import core, explore, ops as O, tables, walker, graphcheck
from mc.core import compare, exc_kind, short, time_limit, CaseTimeout
from mc.env import dask, pd, np
from mc.structkey import ekey

ID = "C17"
KINDS = ["persist", "persist_nofuse", "delayed", "delayed_prefix", "delayed_nodiv", "legacy"]


def cut(x, kind):
    """Materialise / re-import the collection x."""
    import dask_expr as dx

    if kind == "persist":
        return x.persist(scheduler="sync")
    if kind == "persist_nofuse":
        return x.persist(scheduler="sync", fuse=False)
    if kind == "delayed":
        # to_delayed() materialises the OPTIMISED plan: its divisions are the consistent pair
        # (the optimiser may move a filter below a sort, which changes the sampled divisions)
        o = x.optimize()
        divs = o.divisions if o.known_divisions else None
        # verify_meta=False: dtype *flavours* of the declared schema (str vs pyarrow string, int vs
        # float after missing values) are C07's subject, not this property's
        return dx.from_delayed(x.to_delayed(), meta=x._meta, divisions=divs, verify_meta=False)
    if kind == "delayed_prefix":
        o = x.optimize()
        divs = o.divisions if o.known_divisions else None
        return dx.from_delayed(x.to_delayed(), meta=x._meta, divisions=divs, verify_meta=False, prefix="stage1")
    if kind == "delayed_nodiv":
        return dx.from_delayed(x.to_delayed(), meta=x._meta, verify_meta=False)
    if kind == "legacy":
        return dx.from_legacy_dataframe(x.to_legacy_dataframe())
    raise ValueError(kind)


def evaluate(case):
    try:
        with time_limit(120):
            return _evaluate(case)
    except CaseTimeout as e:
        return {"status": "viol", "viols": [{"kind": "timeout", "detail": str(e)}], "info": {}}


def _evaluate(case):
    ops = case["ops"]
    info, viols = {}, []
    with dask.config.set({"dataframe.shuffle.method": "tasks"}):
        try:
            src = tables.source(case["src"])
            q = O.build(src, ops)
            info["kind"] = O.kind_of(q)
            info["skey"] = ekey(q.expr)
        except CaseTimeout:
            raise
        except Exception as e:  # noqa: BLE001
            return {"status": "rejected", "viols": [], "info": {"why": short(e)}}
        typ = O.typing_of(ops)
        try:
            base = core.run(q.optimize().expr)
        except CaseTimeout:
            raise
        except Exception as e:  # noqa: BLE001
            return {"status": "inapplicable", "viols": [], "info": {"why": "uncut: " + short(e), **info}}
        ncuts = 0
        kinds = case.get("kinds", KINDS)
        points = case.get("points", list(range(0, len(ops) + 1)))
        for k in points:
            try:
                head = O.build(tables.source(case["src"]), ops[:k])
            except Exception:  # noqa: BLE001
                continue
            hk = O.kind_of(head)
            if hk == "sc":
                continue
            htyp = O.typing_of(ops[:k])
            for kind in kinds:
                if hk == "idx" and kind in ("legacy",):
                    continue
                ncuts += 1
                try:
                    mid = cut(head, kind)
                except CaseTimeout:
                    raise
                except Exception as e:  # noqa: BLE001
                    viols.append({"kind": f"cut_raises:{kind}:{exc_kind(e)}", "detail": f"cut after {ops[:k]}: {short(e)}"})
                    continue
                # the re-imported collection itself
                if walker._names(mid._meta) != walker._names(head._meta):
                    viols.append({"kind": f"cut_changes_schema:{kind}", "detail": f"after {ops[:k]}: {walker._names(mid._meta)} != {walker._names(head._meta)}"})
                if kind in ("persist", "persist_nofuse", "legacy") and head.known_divisions:
                    if tuple(map(str, mid.divisions)) != tuple(map(str, head.optimize().divisions)) and tuple(map(str, mid.divisions)) != tuple(map(str, head.divisions)):
                        viols.append({"kind": f"cut_changes_divisions:{kind}", "detail": f"after {ops[:k]}: {mid.divisions} != {head.divisions}"})
                try:
                    tail = O.build(mid, ops[k:])
                except CaseTimeout:
                    raise
                except Exception as e:  # noqa: BLE001
                    if kind == "delayed_nodiv" or not head.known_divisions:
                        continue  # operations that need known divisions legitimately refuse
                    viols.append({"kind": f"continue_raises:{kind}:{exc_kind(e)}", "detail": f"ops {ops[k:]} after cut at {k}: {short(e)}"})
                    continue
                try:
                    opt = tail.optimize()
                    low = opt.expr.lower_completely()
                    parts = core.run_parts(low, lower=False)
                    res = core.assemble(parts, low)
                except CaseTimeout:
                    raise
                except Exception as e:  # noqa: BLE001
                    if kind == "delayed_nodiv" or not head.known_divisions:
                        # the divisions were withheld at the cut on purpose: operations that align on labels refuse (or fail) when
                        # they are planned / executed on unknown divisions; raising is decided by the cut kinds that carry divisions
                        continue
                    viols.append({"kind": f"cut_result_raises:{kind}:{exc_kind(e)}", "detail": f"cut after {ops[:k]} then {ops[k:]}: {short(e)}"})
                    continue
                # the partition structure the continued plan reports must be truthful (divisions sorted, partitions inside them)
                if O.kind_of(tail) in ("df", "s", "idx") and not any("nested" in O.OPS[o].tags for o in ops):
                    sp = walker.check_structure(low, parts, None if len(parts) == opt.npartitions else f"{len(parts)} partitions, {opt.npartitions} reported")
                    for p_ in sp[:1]:
                        # only when the uncut plan does not have the same problem (that would be C06's subject)
                        try:
                            bopt = q.optimize()
                            if not walker.check_structure(bopt.expr, core.run_parts(bopt.expr), None):
                                viols.append({"kind": f"continued_structure:{kind}", "detail": f"cut after {ops[:k]} then {ops[k:]}: {p_}"})
                        except CaseTimeout:
                            raise
                        except Exception:  # noqa: BLE001
                            pass
                if walker._names(tail._meta) != walker._names(q._meta):
                    viols.append({"kind": f"final_schema:{kind}", "detail": f"cut at {k}: {walker._names(tail._meta)} != {walker._names(q._meta)}"})
                # after a cut WITHOUT divisions, operations whose value depends on the partitioning or that align their operands on
                # labels (lsens: with unknown divisions partitions are paired by position) are not value-compared
                psens_later = any(("psens" in O.OPS[o].tags) or O.OPS[o].lsens or O.OPS[o].name in ("head3", "tail3", "loc_slice") for o in ops[k:])
                if typ.defined and htyp.defined and not (kind == "delayed_nodiv" and psens_later):
                    r = compare(base, res, ordered=typ.ordered, labelled=typ.labelled)
                    if r and kind in ("delayed", "delayed_prefix", "delayed_nodiv", "legacy") and not compare(_objects_as_strings(base), _objects_as_strings(res), ordered=typ.ordered, labelled=typ.labelled):
                        # the only difference: values of object-dtype columns (booleans / numbers next to missing values or strings) came back
                        # as strings - classified by this signature (KF-object-columns-stringified-at-import)
                        viols.append({"kind": f"final_result:{kind}:object_values_become_strings", "detail": f"cut after {ops[:k]} ({kind}) then {ops[k:]}: {r}"})
                    elif r:
                        viols.append({"kind": f"final_result:{kind}:{r.split(' ')[0]}", "detail": f"cut after {ops[:k]} ({kind}) then {ops[k:]}: {r}"})
                # graph of the continued program (key aliasing of imported graphs)
                try:
                    probs, _ = graphcheck.analyse(opt.expr.lower_completely(), serialise=False)
                    for p in probs[:1]:
                        viols.append({"kind": f"continued_graph:{kind}", "detail": p})
                except CaseTimeout:
                    raise
                except Exception:  # noqa: BLE001
                    pass
    info["cuts"] = ncuts
    info["nontrivial"] = ncuts > 0
    uniq = {}
    for v in viols:
        uniq.setdefault(v["kind"], v)
    return {"status": "viol" if uniq else "ok", "viols": list(uniq.values()), "info": info}


def _objects_as_strings(obj):
    """Non-null values of object / string columns (and of an object / string series or index) as str."""
    import pandas as pd

    def conv(s):
        if str(s.dtype) in ("object", "str", "string") or "string" in str(s.dtype):
            return s.map(lambda v: v if v is None or (isinstance(v, float) and v != v) or v is pd.NA else str(v)).astype("object")
        return s

    try:
        if isinstance(obj, pd.DataFrame):
            out = obj.copy()
            for i in range(out.shape[1]):
                out.isetitem(i, conv(out.iloc[:, i]))
            return out
        if isinstance(obj, pd.Series):
            return conv(obj)
        if isinstance(obj, pd.Index):
            return pd.Index(conv(obj.to_series()).values, name=obj.name)
    except Exception:  # noqa: BLE001
        pass
    return obj


def key(case):
    k = explore.prog_key({"src": case["src"], "ops": case["ops"]})
    if "kinds" in case:
        k += f"|kinds={case['kinds']}"
    if "points" in case:
        k += f"|points={case['points']}"
    return k


def shrink(case):
    kinds = case.get("kinds", KINDS)
    if len(kinds) > 1:
        for kd in kinds:
            yield dict(case, kinds=[kd])
    pts = case.get("points", list(range(0, len(case["ops"]) + 1)))
    if len(pts) > 1:
        for p in pts:
            yield dict(case, points=[p])
    if "points" not in case:
        for c in explore.shrink_prog({"src": case["src"], "ops": case["ops"]}):
            yield dict(case, **c)


def run(ctx):
    quick = ctx.tier == "quick"
    plan = [(["T:3"], [2, 1]), (["T:d3", "T:p2", "T:a3"], [2])] + explore.extra_stages("light") if quick else [(["T:3"], [2, 2]), (["T:u4", "T:m0,5,5,9"], [2, 1]), (["T:3"], [1, 1, 1])]
    ctx.rule = ("E1 BFS over programs x EVERY cut point (after the source and after every operation) x cut kind {persist (fused / unfused), to_delayed -> from_delayed with and "
                "without divisions, legacy dataframe round trip}; the remaining operations are applied to the re-imported collection and the optimised result, the schema and "
                "(where the cut carries them) the divisions must equal the uncut program's; the continued graph is checked for closure; non-trivial = at least one cut executed")
    cuts = 0
    for sources, tiers in plan:
        res = explore.bfs(ctx, evaluate, sources, tiers)
        for case, r in res:
            cuts += r.get("info", {}).get("cuts", 0)
            if r["status"] == "ok" and len(case["ops"]) == len(tiers):
                ctx.sample(key(case), cap=8)
    ctx.cov["cuts_executed"] = cuts
    ctx.assumptions += ["persist uses the synchronous scheduler", "cuts with unknown divisions may make later operations refuse (accepted)"]
    return ctx.finish(evaluate, shrink, key)
