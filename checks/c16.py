"""C16 — collections survive serialisation to another process."""
import json
import os
import pickle
import shutil
import subprocess
import sys
import tempfile

from mc import core, env, explore, ops as O, tables, walker
from mc.core import exc_kind, optimize_until, short, time_limit, CaseTimeout
from mc.env import dask, pd, np
from mc.structkey import ekey

ID = "C16"
FORMS = ["logical", "optimized", "optimized_nofuse", "lowered"]


def _form(q, form):
    from dask_expr._collection import new_collection

    if form == "logical":
        return q
    if form == "optimized":
        return q.optimize()
    if form == "optimized_nofuse":
        return q.optimize(fuse=False)
    if form == "lowered":
        return new_collection(q.expr.lower_completely())
    raise ValueError(form)


def observe(coll, ordered, labelled):
    out = {}
    out["name"] = coll._name
    out["npartitions"] = coll.npartitions
    out["divisions"] = [str(d) for d in coll.divisions]
    out["schema"] = repr((walker._names(coll._meta), walker._kinds(coll._meta)))
    try:
        res = core.run(coll.expr)
        out["result"] = core.digest(res, ordered=ordered, labelled=labelled)
    except CaseTimeout:
        raise
    except Exception as e:  # noqa: BLE001
        out["result"] = "raises:" + exc_kind(e)
    return out


def phase_a(case, outdir):
    """Build, pickle every form, record what the originating process sees."""
    import cloudpickle

    info = {}
    try:
        with time_limit(90):
            try:
                q = O.build(tables.source(case["src"]), case["ops"])
                info["kind"] = O.kind_of(q)
                info["skey"] = ekey(q.expr)
            except CaseTimeout:
                raise
            except Exception as e:  # noqa: BLE001
                return {"status": "rejected", "viols": [], "info": {"why": short(e)}}
            typ = O.typing_of(case["ops"])
            ordered, labelled = typ.ordered and typ.defined, typ.labelled and typ.defined
            payload = {"case": case, "ordered": ordered, "labelled": labelled, "forms": {}}
            with dask.config.set({"dataframe.shuffle.method": "tasks"}):
                for form in case.get("forms", FORMS):
                    try:
                        coll = _form(q, form)
                        blob = cloudpickle.dumps(coll)
                        obs = observe(coll, ordered, labelled)
                    except CaseTimeout:
                        raise
                    except Exception as e:  # noqa: BLE001
                        info.setdefault("form_errors", []).append(f"{form}:{exc_kind(e)}")
                        continue
                    if obs["result"].startswith("raises"):
                        continue
                    payload["forms"][form] = {"blob": blob, "obs": obs}
            if not payload["forms"]:
                return {"status": "inapplicable", "viols": [], "info": {"why": "nothing to serialise", **info}}
            # one file per form: each is loaded by its own pristine process
            paths = []
            base = os.path.join(outdir, f"{abs(hash(explore.prog_key(case))) % 10**12}_{os.getpid()}")
            for form, dform in payload["forms"].items():
                path = f"{base}_{form}.pkl"
                with open(path, "wb") as f:
                    pickle.dump({"case": dict(case, forms=[form]), "ordered": ordered, "labelled": labelled, "forms": {form: dform}}, f)
                paths.append(path)
            info["paths"] = paths
            info["nontrivial"] = len(payload["forms"]) > 1
            return {"status": "ok", "viols": [], "info": info}
    except CaseTimeout as e:
        return {"status": "viol", "viols": [{"kind": "timeout", "detail": "phase A: " + str(e)}], "info": info}


def phase_b(path, keep=False, fresh=False):
    """In a process that has never seen the query (freshly forked, or a long-lived worker
    whose planner state was reset AND verified equal to the pristine census): load and
    recompute."""
    import cloudpickle
    from mc import pristine

    if not fresh and not pristine.reset():
        return {"status": "needs_fresh", "viols": [], "info": {}}

    with open(path, "rb") as f:
        payload = pickle.load(f)
    if not keep:
        try:
            os.remove(path)
        except OSError:
            pass
    case = payload["case"]
    viols = []
    try:
        with time_limit(120):
            with dask.config.set({"dataframe.shuffle.method": "tasks"}):
                for form, d in payload["forms"].items():
                    try:
                        coll = cloudpickle.loads(d["blob"])
                        obs = observe(coll, payload["ordered"], payload["labelled"])
                        coll2 = cloudpickle.loads(d["blob"])
                        obs2 = observe(coll2, payload["ordered"], payload["labelled"])
                    except CaseTimeout:
                        raise
                    except Exception as e:  # noqa: BLE001
                        viols.append({"kind": f"load_raises:{exc_kind(e)}", "detail": f"{form}: {short(e)}"})
                        continue
                    for fld in ("name", "npartitions", "divisions", "schema", "result"):
                        if obs[fld] != d["obs"][fld]:
                            k = "result_raises:" + obs[fld].split(":", 1)[1] if fld == "result" and str(obs[fld]).startswith("raises") else fld
                            viols.append({"kind": f"differs_after_load:{k}", "detail": f"{form}: {fld} {str(obs[fld])[:90]} != originating process {str(d['obs'][fld])[:90]}"})
                        elif obs2[fld] != obs[fld]:
                            viols.append({"kind": f"second_load_differs:{fld}", "detail": f"{form}: {fld}"})
    except CaseTimeout as e:
        viols.append({"kind": "timeout", "detail": "phase B: " + str(e)})
    uniq = {}
    for v in viols:
        uniq.setdefault(v["kind"], v)
    return {"status": "viol" if uniq else "ok", "viols": list(uniq.values()), "info": {"case": case, "forms": len(payload["forms"])}}


def _phase_b_main(path, out):
    r = phase_b(path, keep=False, fresh=True)
    with open(out, "w") as f:
        json.dump(r, f, default=str)


XSEED_PROGRAMS = [("TL:5", ["set_index_u"]), ("TL:5", ["sort_u"]), ("TL:5", ["set_index_a"]), ("TL:5", ["sort_a"]), ("TL:4", ["set_index_u", "proj_ab"]),
                  ("TL:5", ["filt_a_gt2", "set_index_u"]), ("TL:5", ["dropdup_a"]), ("TL:5", ["gb_a_sum_so2"]), ("TL:5", ["merge_T2_inner"]), ("TL:5", ["shuffle_a"])]


def evaluate(case):
    """Self-contained round trip (used for replay/minimisation): phase A here, phase B in a
    brand-new interpreter (with another PYTHONHASHSEED when the case asks for it)."""
    d = tempfile.mkdtemp(prefix="c16_")
    try:
        a = phase_a(case, d)
        if a["status"] != "ok":
            return a
        viols = []
        for i, path in enumerate(a["info"]["paths"]):
            out = os.path.join(d, f"out{i}.json")
            e = dict(os.environ)
            if case.get("hashseed") is not None:
                e["PYTHONHASHSEED"] = str(case["hashseed"])
            subprocess.run([sys.executable, "-W", "ignore", "-c",
                            f"import sys; sys.path.insert(0, {env.VERIF!r}); from checks import c16; c16._phase_b_main({path!r}, {out!r})"],
                           cwd=env.VERIF, stderr=subprocess.DEVNULL, timeout=300, env=e)
            if not os.path.exists(out):
                viols.append({"kind": "phase_b_crashed", "detail": "receiving interpreter produced no output"})
                continue
            with open(out) as f:
                viols.extend(json.load(f)["viols"])
        uniq = {}
        for v in viols:
            uniq.setdefault(v["kind"], v)
        return {"status": "viol" if uniq else "ok", "viols": list(uniq.values()), "info": {}}
    finally:
        shutil.rmtree(d, ignore_errors=True)


def _evaluate_x(case):
    return evaluate(case)


def key(case):
    return explore.prog_key({"src": case["src"], "ops": case["ops"]}) + (f"|forms={case['forms']}" if "forms" in case else "") + (f"|hashseed={case['hashseed']}" if case.get("hashseed") is not None else "")


def shrink(case):
    for c in explore.shrink_prog({"src": case["src"], "ops": case["ops"]}):
        yield dict(case, **c)
    forms = case.get("forms", FORMS)
    if len(forms) > 1:
        for f in forms:
            yield dict(case, forms=[f])


def run(ctx):
    quick = ctx.tier == "quick"
    scratch = tempfile.mkdtemp(prefix="c16_")
    try:
        # T:s3 = rows handed over in another order (the source sorts them), T:d3 / T:a3 / T:p2 = delayed / array / persisted sources
        plan = ([(["T:3"], [2, 1]), (["T:s3", "T:d3", "T:a3", "T:p2", "T:u4"], [2])] + explore.extra_stages("light") if quick else
                [(["T:3"], [2, 2]), (["T:m0,5,5,9", "T:u4", "T:s3", "T:d3", "T:a3", "T:p2"], [2, 1])])
        ctx.rule = ("E1 BFS over programs x {logical, optimize(), optimize(fuse=False), lower_completely()}: one child forked from the pristine parent builds the "
                    "collection, pickles it and records name / schema / divisions / result; a DIFFERENT child forked from the pristine parent (all planner caches empty, "
                    "no expression alive) loads the bytes twice and recomputes the four observations, which must agree; non-trivial = more than one form serialised")
        nforms = 0
        for sources, tiers in plan:
            frontier = [({"src": s, "ops": []}, "df") for s in sources]
            seen = set()
            for depth, tier in enumerate(tiers):
                cands = []
                for case, kind in frontier:
                    for op_ in O.alphabet_spec(tier):
                        if O.applicable(op_, kind):
                            cands.append({"src": case["src"], "ops": case["ops"] + [op_.name]})
                if ctx.out_of_time():
                    ctx.cap_hit(f"time budget before depth {depth + 1}")
                    break
                resa = ctx.map(phase_a, cands, args=(scratch,))
                ctx.transitions += len(cands)
                paths = []
                frontier = []
                for case, r in resa:
                    inf = r.get("info", {})
                    if r["status"] == "ok" and inf.get("skey") not in seen:
                        seen.add(inf["skey"])
                        ctx.states += 1
                        if inf.get("nontrivial"):
                            ctx.nontrivial += 1
                        paths.extend(inf["paths"])
                        if inf.get("kind") in ("df", "s", "idx"):
                            frontier.append((case, inf["kind"]))
                        if len(case["ops"]) == len(tiers):
                            ctx.sample(key(case), cap=8)
                    elif inf.get("paths"):
                        for p_ in inf["paths"]:
                            try:
                                os.remove(p_)
                            except OSError:
                                pass
                resb = ctx.map(phase_b, paths, chunk=8, fresh=False)
                redo = [p_ for p_, r in resb if r["status"] == "needs_fresh"]
                if redo:
                    ctx.cov["loads_in_fresh_fork"] = ctx.cov.get("loads_in_fresh_fork", 0) + len(redo)
                    resb = [(p_, r) for p_, r in resb if r["status"] != "needs_fresh"] + ctx.map(phase_b, redo, args=(False, True), chunk=1, fresh=True)
                ctx.status_counts.pop("needs_fresh", None)
                for path, r in resb:
                    nforms += r.get("info", {}).get("forms", 0)
                # re-attribute failures found in phase B to their cases
                fixed = []
                for item, v in ctx.failures:
                    if isinstance(item, str):
                        case = next((r["info"]["case"] for p, r in resb if p == item), None)
                        fixed.append((case, v))
                    else:
                        fixed.append((item, v))
                ctx.failures = fixed
        # receiving interpreters with a different hash seed (brand-new processes), on a table large
        # enough for data-dependent planning (quantile sampling) to matter
        xs = [{"src": src, "ops": ops, "hashseed": hs} for src, ops in XSEED_PROGRAMS for hs in (12345, 987654321)]
        resx = ctx.map(_evaluate_x, xs, chunk=1, fresh=False)
        ctx.transitions += len(xs)
        ctx.cov["cross_hashseed_round_trips"] = len(xs)
        ctx.cov["forms_round_tripped"] = nforms
        ctx.assumptions += ["the receiving process is a fork of the pristine parent: same modules imported, no expression ever built, all caches empty",
                            "replays use a brand-new interpreter for the receiving side"]
        return ctx.finish(evaluate, shrink, key)
    finally:
        shutil.rmtree(scratch, ignore_errors=True)
