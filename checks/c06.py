"""C06 — reported partition structure (npartitions, divisions, lengths) is truthful."""
from checks import _walk

ID = "C06"


def evaluate(case, oracle="structure"):
    return _walk.evaluate(case, "structure")


def run(ctx):
    ctx.assumptions += ["divisions asserted by the user (set_index(sorted=True/divisions=...)) are not in the alphabet",
                        "index nulls are ignored when computing a partition's index range"]
    return _walk.run(ctx, "structure",
        "E1 BFS over programs x index dtypes (int, duplicate int, float, string, datetime); for each program the unoptimised, "
        "simplified-logical, simplified-physical and fused plans are executed once keeping every key, and EVERY node of each plan "
        "is examined: produced partitions == npartitions == len(divisions)-1, known divisions sorted, every partition's index range "
        "inside [d_i, d_i+1) (last closed); plus len()/size/Lengths through the metadata short-cuts vs counted rows; "
        "non-trivial = more than one structurally distinct plan")
