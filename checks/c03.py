"""C03 — a filter keeps exactly the rows that satisfy the user's predicate."""
import itertools

from mc import core, tables
from mc.core import compare, exc_kind, short, time_limit, CaseTimeout
from mc.env import dask, pd, np

ID = "C03"
NaN = float("nan")

# --------------------------------------------------------------------------
# (a) predicate trees over the full valuation table
# --------------------------------------------------------------------------

VALS = [0.0, 2.0, NaN]  # atom false / true / NULL


def make_tnull():
    rows = list(itertools.product(VALS, repeat=3))
    df = pd.DataFrame(rows, columns=["p", "q", "r"])
    df["v"] = range(len(df))
    df["s"] = [None if (i % 5 == 0) else "xyz"[i % 3] for i in range(len(df))]
    return df


TNULL = make_tnull()

ATOM_FLAVOURS = {
    # name: [atom_p, atom_q, atom_r]  each a function of the frame
    "cmp": [lambda x: x["p"] > 1, lambda x: x["q"] >= 2, lambda x: x["r"] == 2],
    "mixed": [lambda x: x["p"].isin([2.0]), lambda x: x["q"].isna(), lambda x: x["r"] != 0],
    "colcol": [lambda x: x["p"] > x["q"], lambda x: x["q"] > x["q"].mean(), lambda x: x["r"].notnull()],
}


def trees(nconn):
    """All predicate trees with exactly nconn connectives, commutatively deduplicated."""
    lits = [("lit", i, neg) for i in range(3) for neg in (False, True)]
    memo = {0: lits}

    def canon(t):
        if t[0] == "lit":
            return t
        a, b = canon(t[1]), canon(t[2])
        if repr(b) < repr(a):
            a, b = b, a
        return (t[0], a, b)

    for n in range(1, nconn + 1):
        out = set()
        for k in range(0, n):
            for a in memo[k]:
                for b in memo[n - 1 - k]:
                    for op in ("and", "or"):
                        out.add(canon((op, a, b)))
        memo[n] = sorted(out, key=repr)
    return memo[nconn]


def spines():
    """ORDERED three-branch spines ((x op y) op z) in which exactly one branch is a two-literal sub-tree of the
    opposite connective, in every branch position (rules that treat the FIRST branch specially are order-sensitive,
    which the commutative dedupe of trees() hides)."""
    lits = [("lit", i, neg) for i in range(3) for neg in (False, True)]
    out = []
    for op, inner in (("or", "and"), ("and", "or")):
        for i in range(len(lits)):
            for j in range(i + 1, len(lits)):
                sub = (inner, lits[i], lits[j])
                for m1 in lits:
                    for m2 in lits:
                        for pos in range(3):
                            br = [m1, m2]
                            br.insert(pos, sub)
                            out.append((op, (op, br[0], br[1]), br[2]))
    return out


def build_pred(t, x, atoms):
    if t[0] == "lit":
        a = atoms[t[1]](x)
        return ~a if t[2] else a
    l, r = build_pred(t[1], x, atoms), build_pred(t[2], x, atoms)
    return (l & r) if t[0] == "and" else (l | r)


def tree_str(t):
    if t[0] == "lit":
        return ("~" if t[2] else "") + "PQR"[t[1]]
    return "(" + tree_str(t[1]) + ("&" if t[0] == "and" else "|") + tree_str(t[2]) + ")"


def parse_tree(s):
    s = s.strip()

    def parse(i):
        if s[i] == "(":
            l, i = parse(i + 1)
            op = "and" if s[i] == "&" else "or"
            r, i = parse(i + 1)
            assert s[i] == ")"
            return (op, l, r), i + 1
        neg = False
        if s[i] == "~":
            neg = True
            i += 1
        return ("lit", "PQR".index(s[i]), neg), i + 1

    t, _ = parse(0)
    return t


CONTEXTS = {
    # how the filtered frame is consumed (the parent decides which rules fire)
    "proj": (lambda y: y[["v", "p"]], lambda y: y[["v", "p"]]),
    "plain": (lambda y: y, lambda y: y),
    "then_filter": (lambda y: y[y["v"] > 3][["v"]], lambda y: y[y["v"] > 3][["v"]]),
    "assign": (lambda y: y.assign(z=y["v"] + 1)[["z", "q"]], lambda y: y.assign(z=y["v"] + 1)[["z", "q"]]),
}


def eval_tree(case):
    t = parse_tree(case["tree"])
    atoms = ATOM_FLAVOURS[case["atoms"]]
    import dask_expr as dx

    df = dx.from_pandas(TNULL, npartitions=case.get("np", 3))
    pdf = tables.dask_dtypes(TNULL)
    ctx_d, ctx_p = CONTEXTS[case["ctx"]]
    viols, info = [], {}
    try:
        exp = ctx_p(pdf[build_pred(t, pdf, atoms)])
    except Exception as e:  # noqa: BLE001
        return {"status": "inapplicable", "viols": [], "info": {"why": short(e)}}
    try:
        q = ctx_d(df[build_pred(t, df, atoms)])
        ref_plan = q.expr.lower_completely()
        opt = q.optimize(fuse=False)
        got = core.run(opt.expr)
    except CaseTimeout:
        raise
    except Exception as e:  # noqa: BLE001
        return {"status": "viol", "viols": [{"kind": "raises:" + exc_kind(e), "detail": short(e)}], "info": info}
    r = compare(exp, got, ordered=True, labelled=True)
    if r:
        viols.append({"kind": "rows_" + r.split(" ")[0], "detail": f"vs pandas: {r}"})
    from mc.structkey import ekey

    info["nontrivial"] = ekey(opt.expr) != ekey(ref_plan)
    return {"status": "viol" if viols else "ok", "viols": viols, "info": info}


# --------------------------------------------------------------------------
# (b) crossing operators, (c) joins
# --------------------------------------------------------------------------

def _L():
    return tables.T


def _R():
    return tables.T2


PREDS = {
    # predicates on the output of the crossed operator; `y` is that output
    "a_gt2": lambda y: y["a"] > 2,
    "b_le": lambda y: y["b"] <= 2.5,
    "b_ne": lambda y: y["b"] != 2.5,
    "not_b_gt": lambda y: ~(y["b"] > 1),
    "c_isin": lambda y: y["c"].isin(["x", "z"]),
    "c_ne_x": lambda y: y["c"] != "x",
    "b_isna": lambda y: y["b"].isna(),
    "and_ab": lambda y: (y["a"] > 1) & (y["b"] < 4),
    "or_ab": lambda y: (y["a"] > 4) | (y["b"] < 1),
    "or_common": lambda y: ((y["a"] > 1) & (y["b"] < 4)) | ((y["a"] > 1) & (y["d"] == 1)),
    "a_gt_mean": lambda y: y["a"] > y["a"].mean(),
    "a_gt_d": lambda y: y["a"] > y["d"],
    "h_gt1": lambda y: y["h"] > 1,                      # column whose values an astype truncated
    "a_cumsum": lambda y: y["a"].cumsum() > 9,           # order/row-set dependent term in the predicate
    "b_rank_like": lambda y: y["b"].cummax() >= 2.5,
    "a_gt_mean_plus": lambda y: y["a"] > y["a"].mean() + 0,
    "a_minus_mean": lambda y: y["a"] - y["a"].mean() > 0,
    "idx_gt": lambda y: y.index > 3,
    "z_gt": lambda y: y["z"] > 3,          # created column
    "A_gt": lambda y: y["A"] > 2,          # renamed column
    "pa_gt": lambda y: y["p_a"] > 2,        # prefixed column
    "index_col": lambda y: y["index"] > 3,  # former index (reset_index)
    "u_gt": lambda y: y["u"] > 4,
    "and_z_a": lambda y: (y["z"] > 3) & (y["a"] < 5),
    "and_idx_a": lambda y: (y.index > 2) & (y["a"] > 1),
    "and_indexcol_a": lambda y: (y["index"] > 3) & (y["a"] < 5),  # former index and a column (reset_index)
    "u_gt_and_b": lambda y: (y["u"] > 3) & (y["b"] < 4),
    # the (new) index reached through something derived from the frame
    "derived_idx_gt": lambda y: y["a"].index.to_series() > 2,
    "derived_idx_and_a": lambda y: ((y["a"] + 1).index.to_series() > 2) & (y["a"] > 1),
}

CROSS = {
    # operator: (dask fn, pandas fn, ordered, labelled, applicable predicates)
    "proj": (lambda x: x[["a", "b", "c", "d"]], None, True, True, ["a_gt_mean_plus", "a_minus_mean", "a_gt2", "b_ne", "not_b_gt", "c_isin", "c_ne_x", "b_isna", "and_ab", "or_ab", "or_common", "a_gt_mean", "a_gt_d", "idx_gt"]),
    "assign": (lambda x: x.assign(z=x["a"] + x["d"]), None, True, True, ["a_gt_mean_plus", "a_gt2", "z_gt", "and_z_a", "b_ne", "or_common", "a_gt_mean"]),
    "assign_over": (lambda x: x.assign(a=x["a"] * 2), None, True, True, ["a_gt2", "and_ab", "a_gt_d"]),
    "rename": (lambda x: x.rename(columns={"a": "A"}), None, True, True, ["A_gt", "b_ne", "c_isin"]),
    "add_prefix": (lambda x: x.add_prefix("p_"), None, True, True, ["pa_gt"]),
    "astype": (lambda x: x.astype({"a": "float64"}), None, True, True, ["a_gt2", "and_ab", "b_isna"]),
    "astype_trunc": (lambda x: x.assign(h=x["a"] / 2).astype({"h": "int64"}), None, True, True, ["h_gt1", "a_gt2"]),
    "filter_first": (lambda x: x[x["d"] == 1], None, True, True, ["a_cumsum", "b_rank_like", "a_gt2", "a_gt_mean"]),
    "fillna": (lambda x: x.fillna({"b": 0.0}), None, True, True, ["b_le", "b_ne", "b_isna", "and_ab"]),
    "abs": (lambda x: x[["a", "b", "d"]].abs(), None, True, True, ["a_gt2", "b_le", "not_b_gt"]),
    "reset_index": (lambda x: x.reset_index(), None, True, False, ["a_gt2", "index_col", "b_ne", "and_indexcol_a"]),
    # the new index is a SERIES operand (not a column name): it is not filtered with the frame
    "set_index_series": (lambda x: x.set_index(x["u"] * 2), lambda x: x.set_index(x["u"] * 2).sort_index(), True, True, ["a_gt2", "u_gt", "b_ne", "u_gt_and_b"]),
    "reset_index_drop": (lambda x: x.reset_index(drop=True), None, True, False, ["a_gt2", "b_isna"]),
    "to_frame": (lambda x: x["a"].to_frame(), None, True, True, ["a_gt2"]),
    "sort_values": (lambda x: x.sort_values("u"), None, True, True, ["a_cumsum", "b_rank_like", "a_gt_mean_plus", "a_minus_mean", "a_gt2", "u_gt", "b_ne", "or_common", "a_gt_mean"]),
    "set_index": (lambda x: x.set_index("u"), lambda x: x.set_index("u").sort_index(), True, True, ["a_gt2", "idx_gt", "and_idx_a", "b_ne", "a_gt_mean", "derived_idx_gt", "derived_idx_and_a"]),
    "shuffle": (lambda x: x.shuffle("a"), lambda x: x, False, True, ["a_gt2", "b_ne", "c_ne_x", "or_common"]),
    "repartition": (lambda x: x.repartition(npartitions=2), lambda x: x, True, True, ["a_cumsum", "a_gt2", "b_ne", "a_gt_mean", "idx_gt"]),
    "concat": (lambda x: _concat([x, x]), None, True, True, ["a_gt2", "b_ne", "or_common"]),
    "dropna": (lambda x: x.dropna(subset=["b"]), None, True, True, ["a_gt2", "b_le"]),
    "cumsum": (lambda x: x[["a", "b", "d"]].cumsum(), None, True, True, ["a_gt2", "b_le"]),
    "shift": (lambda x: x[["a", "b"]].shift(1), None, True, True, ["a_gt2", "b_isna"]),
    "drop_duplicates": (lambda x: x[["a", "d"]].drop_duplicates(), None, False, False, ["a_gt2", "a_gt_d"]),
    "groupby": (lambda x: x.groupby("a")[["b", "d"]].sum().reset_index(), None, False, False, ["a_gt2", "b_le"]),
}

CONSUMERS = ["sole", "second_consumer", "only_in_predicate", "two_filters", "projected_after"]


def _concat(objs):
    if isinstance(objs[0], pd.DataFrame):
        return pd.concat(objs)
    import dask_expr as dx

    return dx.concat(objs)


def _consume(y, pred, consumer, pandas):
    f = y[pred(y)]
    if consumer == "sole":
        return f
    if consumer == "projected_after":
        cols = [c for c in f.columns][:2]
        return f[cols]
    if consumer == "second_consumer":
        # the unfiltered frame is needed too
        other = y[[c for c in y.columns if c in ("a", "A", "p_a", "b", "p_b", "d", "z", "u")][:1]]
        return _concat([f[list(other.columns)], other])
    if consumer == "only_in_predicate":
        return f  # predicates such as a_gt_mean already consume y inside the predicate
    if consumer == "two_filters":
        first = [c for c in y.columns if c in ("a", "A", "p_a", "d", "z", "u", "b")][0]
        g = y[y[first].notnull() & (y[first] != 3)]
        return _concat([f, g])
    raise ValueError(consumer)


def eval_cross(case):
    dfn, pfn, ordered, labelled, _ = CROSS[case["op"]]
    pfn = pfn or dfn
    pred = PREDS[case["pred"]]
    viols, info = [], {}
    import dask_expr as dx

    df = dx.from_pandas(tables.T, npartitions=3)
    pdf = tables.dask_dtypes(tables.T)
    try:
        exp = _consume(pfn(pdf), pred, case["consumer"], True)
    except Exception as e:  # noqa: BLE001
        return {"status": "inapplicable", "viols": [], "info": {"why": "pandas: " + short(e)}}
    with dask.config.set({"dataframe.shuffle.method": "tasks"}):
        try:
            q = _consume(dfn(df), pred, case["consumer"], False)
        except CaseTimeout:
            raise
        except Exception as e:  # noqa: BLE001
            return {"status": "rejected", "viols": [], "info": {"why": short(e)}}
        try:
            ref = core.run(q.expr.lower_completely(), lower=False)
        except CaseTimeout:
            raise
        except Exception as e:  # noqa: BLE001
            return {"status": "inapplicable", "viols": [], "info": {"why": "unoptimised: " + short(e)}}
        try:
            opt = q.optimize(fuse=False)
            got = core.run(opt.expr)
        except CaseTimeout:
            raise
        except Exception as e:  # noqa: BLE001
            return {"status": "viol", "viols": [{"kind": "raises:" + exc_kind(e), "detail": short(e)}], "info": info}
    multi = case["consumer"] in ("second_consumer", "two_filters")
    r = compare(exp, got, ordered=ordered and not multi, labelled=labelled, check_kinds=False)
    if r:
        viols.append({"kind": "rows_" + r.split(" ")[0], "detail": f"optimised vs pandas: {r}"})
    r2 = compare(ref, got, ordered=ordered and not multi, labelled=labelled, check_kinds=False)
    if r2 and not r:
        viols.append({"kind": "rows_vs_unoptimised_" + r2.split(" ")[0], "detail": f"optimised vs unoptimised: {r2}"})
    from mc.structkey import ekey

    info["nontrivial"] = ekey(opt.expr) != ekey(q.expr.lower_completely())
    return {"status": "viol" if viols else "ok", "viols": viols, "info": info}


JOIN_PREDS = {
    "left_only": lambda m: m["u"] > 4,
    "right_only": lambda m: m["e"] >= 3,
    "key": lambda m: m["a"] > 1,
    "both": lambda m: (m["u"] > 2) & (m["e"] < 6),
    "suffixed_x": lambda m: m["b_x"] > 1,
    "suffixed_y": lambda m: m["b_y"] > 20,
    "suffixed_x_null": lambda m: m["b_x"].isna(),
    "right_null": lambda m: m["e"].isna(),
    "left_null": lambda m: m["u"].isna(),
    "custom_left_plain": lambda m: m["b"] > 1,      # suffixes ("", "_r")
    "custom_right": lambda m: m["b_r"] > 20,
    "chain": lambda m: (m["u"] > 2) & (m["e"] < 6) & (m["a"] > 1),
    "or_sides": lambda m: (m["u"] > 8) | (m["e"] < 2),
    "ne_right": lambda m: m["e"] != 3,
    "custom2_right_plain": lambda m: m["b"] > 20,   # suffixes ("_l", ""): bare name is the right column
    "custom2_left": lambda m: m["b_l"] > 1,
    "vs_mean_plus": lambda m: m["u"] > m["u"].mean() + 0,
    "minus_mean": lambda m: m["u"] - m["u"].mean() > 0,
    "not_left": lambda m: ~(m["u"] > 4),
    # a condition against a reduction OF THE JOIN RESULT and-ed to a one-sided condition: splitting the conjunction or moving it
    # into an input must not change what the reduction ranges over
    "and_left_then_mean": lambda m: (m["u"] > 4) & (m["e"] > m["e"].mean()),
    "and_mean_then_left": lambda m: (m["e"] > m["e"].mean()) & (m["u"] > 4),
    "key_vs_mean_plus": lambda m: m["a"] > m["a"].mean() + 0,
    "left_vs_max_minus": lambda m: m["u"] >= m["u"].max() - 3,
    # a condition that reads columns of BOTH inputs, alone and and-ed (in both orders, and stacked) to a one-sided condition
    "cross_cols": lambda m: m["u"] > m["e"],
    "cross_then_left": lambda m: (m["u"] > m["e"]) & (m["u"] > 2),
    "left_then_cross": lambda m: (m["u"] > 2) & (m["u"] > m["e"]),
    "cross_then_right": lambda m: (m["u"] > m["e"]) & (m["e"] < 6),
}


def eval_join(case):
    how, predname, suff, consumer = case["how"], case["pred"], case["suffixes"], case["consumer"]
    pred = JOIN_PREDS[predname]
    viols, info = [], {}
    import dask_expr as dx

    L, R = tables.dask_dtypes(tables.T), tables.dask_dtypes(tables.T2)
    kw = dict(on="a", how=how if how != "leftsemi" else "inner")
    if suff == "custom":
        kw["suffixes"] = ("", "_r")
    elif suff == "custom2":
        kw["suffixes"] = ("_l", "")

    def build(l, r, pandas):
        if how == "leftsemi":
            if pandas:
                m = l[l["a"].isin(r["a"])]
            else:
                m = l.merge(r[["a"]].drop_duplicates(), on="a", how="leftsemi")
        else:
            m = l.merge(r, **kw)
        f = m[pred(m)]
        if consumer == "shared":
            return _concat([f[["a"]], m[["a"]]])
        if consumer == "projected":
            return f[[c for c in f.columns][:3]]
        return f

    try:
        exp = build(L, R, True)
    except Exception as e:  # noqa: BLE001
        return {"status": "inapplicable", "viols": [], "info": {"why": "pandas: " + short(e)}}
    with dask.config.set({"dataframe.shuffle.method": "tasks"}):
        try:
            q = build(dx.from_pandas(tables.T, npartitions=3), dx.from_pandas(tables.T2, npartitions=2), False)
        except CaseTimeout:
            raise
        except Exception as e:  # noqa: BLE001
            return {"status": "rejected", "viols": [], "info": {"why": short(e)}}
        try:
            ref = core.run(q.expr.lower_completely(), lower=False)
        except CaseTimeout:
            raise
        except Exception as e:  # noqa: BLE001
            return {"status": "inapplicable", "viols": [], "info": {"why": "unoptimised: " + short(e)}}
        try:
            opt = q.optimize(fuse=False)
            got = core.run(opt.expr)
        except CaseTimeout:
            raise
        except Exception as e:  # noqa: BLE001
            return {"status": "viol", "viols": [{"kind": "raises:" + exc_kind(e), "detail": short(e)}], "info": info}
    r = compare(exp, got, ordered=False, labelled=False, check_kinds=False)
    if r:
        viols.append({"kind": "rows_" + r.split(" ")[0], "detail": f"optimised vs pandas: {r}"})
    r2 = compare(ref, got, ordered=False, labelled=False, check_kinds=False)
    if r2 and not r:
        viols.append({"kind": "rows_vs_unoptimised_" + r2.split(" ")[0], "detail": r2})
    from mc.structkey import ekey

    info["nontrivial"] = ekey(opt.expr) != ekey(q.expr.lower_completely())
    return {"status": "viol" if viols else "ok", "viols": viols, "info": info}


def evaluate(case):
    try:
        with time_limit(60):
            m = case["mode"]
            if m == "tree":
                return eval_tree(case)
            if m == "cross":
                return eval_cross(case)
            if m == "join":
                return eval_join(case)
            raise ValueError(m)
    except CaseTimeout as e:
        return {"status": "viol", "viols": [{"kind": "timeout", "detail": str(e)}], "info": {}}


def key(case):
    return case["mode"] + "|" + ",".join(f"{k}={case[k]}" for k in sorted(case) if k != "mode")


def shrink(case):
    if case["mode"] == "tree":
        t = parse_tree(case["tree"])
        if t[0] != "lit":
            for sub in (t[1], t[2]):
                yield dict(case, tree=tree_str(sub))
        if case.get("np", 3) != 1:
            yield dict(case, np=1)
        if case["ctx"] != "proj":
            yield dict(case, ctx="proj")
    elif case["mode"] in ("cross", "join"):
        if case["consumer"] != "sole":
            yield dict(case, consumer="sole")


def run(ctx):
    quick = ctx.tier == "quick"
    cases = []
    maxconn = 2 if quick else 3
    ntrees = 0
    for n in range(0, maxconn + 1):
        ts = trees(n)
        ntrees += len(ts)
        for t in ts:
            s = tree_str(t)
            for flavour in ATOM_FLAVOURS:
                if n == 3 and flavour != "cmp":
                    continue
                ctxs = ["proj", "then_filter"] if n >= 2 else list(CONTEXTS)
                for c in ctxs:
                    if n == 3 and c != "proj":
                        continue
                    cases.append({"mode": "tree", "tree": s, "atoms": flavour, "ctx": c})
    sp = spines()
    for t in sp:
        cases.append({"mode": "tree", "tree": tree_str(t), "atoms": "cmp", "ctx": "proj"})
    for op, (_, _, _, _, preds) in CROSS.items():
        for p in preds:
            for consumer in CONSUMERS:
                if consumer == "only_in_predicate" and p not in ("a_gt_mean", "a_gt_d"):
                    continue
                cases.append({"mode": "cross", "op": op, "pred": p, "consumer": consumer})
    for how in ("inner", "left", "right", "outer", "leftsemi"):
        for p in JOIN_PREDS:
            for suff in ("default", "custom", "custom2"):
                for consumer in ("sole", "shared", "projected"):
                    cases.append({"mode": "join", "how": how, "pred": p, "suffixes": suff, "consumer": consumer})
    ctx.rule = (f"(a) ALL predicate trees with <= {maxconn} and/or connectives over the 6 literals of 3 atoms ({ntrees} trees after commutative dedupe), "
                f"plus {len(sp)} ORDERED three-branch or/and spines with one two-literal branch of the opposite connective in every position; "
                "3 atom flavours (comparisons; isin/isna/!=; column-vs-column, column-vs-reduction, notnull), evaluated on the table whose 27 rows are all "
                "valuations {false, true, NULL}^3, under 4 consumer contexts; (b) every operator a filter can cross x predicates (untouched / created / renamed / "
                "index columns, conjunctions, OR with common conjunct, reduction in predicate) x consumer pattern; (c) join kind x predicate side x suffixing x "
                "sharing; oracle = pandas boolean indexing; non-trivial = the optimiser changed the plan")
    cases = list({key(c): c for c in cases}.values())
    res = ctx.map(evaluate, cases, chunk=64)
    ctx.states = len(cases)
    ctx.transitions = len(cases)
    for case, r in res:
        if r.get("info", {}).get("nontrivial"):
            ctx.nontrivial += 1
    for c in (cases[10], cases[len(cases) // 2], cases[-1]):
        ctx.sample(key(c))
    ctx.cov["predicate_trees"] = ntrees
    ctx.cov["ordered_spines"] = len(sp)
    ctx.cov["valuation_rows"] = len(TNULL)
    ctx.assumptions += ["reader-side filters (parquet) are decided in C18", "NULL = missing value in the compared column (pandas semantics: comparisons with NaN are False)"]
    return ctx.finish(evaluate, shrink, key)
