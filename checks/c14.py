"""C14 — blockwise fusion only changes task granularity."""
from mc import core, explore, ops as O, tables, walker, graphcheck
from mc.core import compare, exc_kind, optimize_until, short, time_limit, CaseTimeout, run_parts
from mc.env import dask
from mc.structkey import ekey

ID = "C14"


def evaluate(case):
    try:
        with time_limit(90):
            return _evaluate(case)
    except CaseTimeout as e:
        return {"status": "viol", "viols": [{"kind": "timeout", "detail": str(e)}], "info": {}}


def _evaluate(case):
    info, viols = {}, []
    try:
        src = tables.source(case["src"])
        q = O.build(src, case["ops"])
        expr = q.expr
        info["kind"] = O.kind_of(q)
        info["skey"] = ekey(expr)
    except CaseTimeout:
        raise
    except Exception as e:  # noqa: BLE001
        return {"status": "rejected", "viols": [], "info": {"why": short(e)}}
    from dask_expr._expr import Fused, optimize_blockwise_fusion
    from dask_expr._collection import new_collection

    with dask.config.set({"dataframe.shuffle.method": "tasks"}):
        try:
            unf = optimize_until(expr, "simplified-physical")
            ref_parts = run_parts(unf, lower=False)
        except CaseTimeout:
            raise
        except Exception as e:  # noqa: BLE001
            return {"status": "inapplicable", "viols": [], "info": {"why": "unfused: " + short(e), **info}}
        variants = [("fused", lambda: optimize_blockwise_fusion(unf))]
        if case.get("nested", True):
            variants.append(("fused twice", lambda: optimize_blockwise_fusion(optimize_blockwise_fusion(unf))))
            variants.append(("optimize(optimize)", lambda: new_collection(optimize_blockwise_fusion(unf)).optimize().expr))
        ngroups = 0
        for label, mk in variants:
            try:
                f = mk()
                groups = [n for n in f.walk() if isinstance(n, Fused)]
                ngroups = max(ngroups, len(groups))
                if label != "fused" and ekey(f) == info.get("fkey"):
                    continue
                if label == "fused":
                    info["fkey"] = ekey(f)
                parts = run_parts(f, lower=True)
            except CaseTimeout:
                raise
            except Exception as e:  # noqa: BLE001
                viols.append({"kind": "fused_raises:" + exc_kind(e), "detail": f"{label}: {short(e)}"})
                continue
            fl = f.lower_completely()
            if fl.npartitions != unf.npartitions or len(parts) != len(ref_parts):
                viols.append({"kind": "npartitions", "detail": f"{label}: {fl.npartitions}/{len(parts)} != {unf.npartitions}/{len(ref_parts)}"})
                continue
            if tuple(map(str, fl.divisions)) != tuple(map(str, unf.divisions)):
                viols.append({"kind": "divisions", "detail": f"{label}: {fl.divisions} != {unf.divisions}"})
            sm, su = (walker._names(fl._meta), walker._kinds(fl._meta)), (walker._names(unf._meta), walker._kinds(unf._meta))
            if sm != su:
                viols.append({"kind": "schema", "detail": f"{label}: {sm} != {su}"})
            for i, (a, b) in enumerate(zip(ref_parts, parts)):
                r = compare(a, b, ordered=True, labelled=True)
                if r:
                    viols.append({"kind": "partition_contents:" + r.split(" ")[0], "detail": f"{label}: partition {i}: {r}"})
                    break
            # group well-formedness (shared with C09)
            for p in graphcheck.fused_inner_problems(fl):
                viols.append({"kind": "fused_inner_graph", "detail": f"{label}: {p}"})
                break
    info["groups"] = ngroups
    info["nontrivial"] = ngroups > 0
    uniq = {}
    for v in viols:
        uniq.setdefault(v["kind"], v)
    return {"status": "viol" if uniq else "ok", "viols": list(uniq.values()), "info": info}


def run(ctx):
    if ctx.tier == "quick":
        plan = [(["T:3"], [2, 2])] + explore.extra_stages("t3")
    else:
        plan = [(["T:3"], [2, 2]), (["T:m0,5,5,9", "T:1", "T:u4"], [2, 2]), (["T:3"], [1, 1, 1])]
    ctx.rule = ("E1 BFS over programs (shared nodes, broadcast operands, partition selections above groups, partition-wise ops between "
                "non-partition-wise stages all arise from the alphabet); per program the simplified-physical plan is executed unfused and "
                "fused (also fused twice and re-optimised = nested groups): npartitions, divisions, schema and EVERY output partition "
                "compared one by one (exact, ordered); fused inner graphs checked for closure; non-trivial = the plan contains a fused group")
    groups = 0
    for sources, tiers in plan:
        res = explore.bfs(ctx, evaluate, sources, tiers)
        for case, r in res:
            groups += r.get("info", {}).get("groups", 0)
            if r["status"] == "ok" and r["info"].get("groups") and len(case["ops"]) == len(tiers):
                ctx.sample(explore.prog_key(case), cap=10)
    ctx.cov["fused_groups_seen"] = groups
    ctx.assumptions += ["shuffle method 'tasks' so that row order inside partitions is deterministic"]
    return ctx.finish(evaluate, explore.shrink_prog, explore.prog_key)
