"""C12 — a shuffle is a permutation that co-locates equal keys consistently across frames."""
import itertools

from mc import core, tables
from mc.core import canon, exc_kind, short, time_limit, CaseTimeout, run_parts
from mc.env import dask, pd, np

ID = "C12"

KEYS = ["int", "float", "str", "cat", "intnull", "two", "index", "idxname", "series"]


def make_frame(n_in, keykind, rows_per_part=6):
    """Every key value appears in every input partition."""
    base = [0, 1, 2, 3, 4, 5][:rows_per_part]
    parts = []
    rid = 0
    for p in range(n_in):
        k = list(base)
        df = pd.DataFrame({"k": k, "j": [x % 2 for x in k], "rid": range(rid, rid + len(k))})
        rid += len(k)
        if keykind == "float":
            df["k"] = df["k"].astype("float64")
        elif keykind == "str":
            df["k"] = df["k"].map(lambda x: "abcdef"[x])
        elif keykind == "cat":
            df["k"] = pd.Categorical(df["k"], categories=[0, 1, 2, 3, 4, 5, 6])
        elif keykind == "intnull":
            df["k"] = df["k"].astype("float64")
            df.loc[df["k"] == 5, "k"] = np.nan
        elif keykind == "index":
            df = df.set_index("k", drop=False).rename_axis("ki")
        elif keykind == "idxname":
            # the key lives only in the (named) index and is referred to by that name
            df = df.set_index("k", drop=True).rename_axis("ki")
        if keykind not in ("index", "idxname"):
            df.index = pd.RangeIndex(p * 100, p * 100 + len(df))
        parts.append(df)
    return parts


def shuffle_call(df, case):
    kk = case["key"]
    kw = dict(npartitions=case["n_out"], shuffle_method=case["method"], ignore_index=case["ignore_index"])
    if case.get("max_branch"):
        kw["max_branch"] = case["max_branch"]
    if kk == "two":
        return df.shuffle(on=["k", "j"], **kw)
    if kk == "index":
        return df.shuffle(on_index=True, **kw)
    if kk == "idxname":
        return df.shuffle(on="ki", **kw)
    if kk == "series":
        return df.shuffle(on=df["k"] * 1, **kw)
    return df.shuffle(on="k", **kw)


def rowset(parts):
    out = []
    for p in parts:
        out.extend(p["rid"].tolist())
    return sorted(out)


def key_tokens(p, kk):
    if kk == "idxname":
        return [core.norm_value(v) for v in p.index.tolist()]
    if kk == "two":
        return [tuple(x) for x in p[["k", "j"]].itertuples(index=False, name=None)]
    return [core.norm_value(v) for v in p["k"].tolist()]


def evaluate(case):
    try:
        with time_limit(120):
            return _evaluate(case)
    except CaseTimeout as e:
        return {"status": "viol", "viols": [{"kind": "timeout", "detail": str(e)}], "info": {}}


def _evaluate(case):
    viols, info = [], {}
    kk = case["key"]
    parts_in = make_frame(case["n_in"], kk)
    allrows = pd.concat(parts_in)
    df = tables.from_parts(parts_in)
    try:
        q = shuffle_call(df, case)
        plan = q.optimize(fuse=case.get("fuse", False))
        parts = run_parts(plan.expr)
    except CaseTimeout:
        raise
    except Exception as e:  # noqa: BLE001
        return {"status": "viol", "viols": [{"kind": "raises:" + exc_kind(e), "detail": short(e)}], "info": info}
    n_out = case["n_out"]
    if len(parts) != n_out or plan.npartitions != n_out:
        viols.append({"kind": "npartitions", "detail": f"{len(parts)} partitions / reported {plan.npartitions}, requested {n_out}"})
    # 1. permutation
    if rowset(parts) != sorted(allrows["rid"].tolist()):
        got = rowset(parts)
        viols.append({"kind": "not_a_permutation", "detail": f"{len(got)} rows out, {len(allrows)} in; duplicates={len(got) - len(set(got))}"})
    else:
        # full row content preserved (values, and index unless ignore_index)
        out = pd.concat(parts)
        a = allrows.sort_values("rid")
        b = out.sort_values("rid")
        r = core.compare(a, b, ordered=True, labelled=not case["ignore_index"])
        if r:
            viols.append({"kind": "row_content_" + r.split(" ")[0], "detail": r})
    # 2. co-location
    where = {}
    for i, p in enumerate(parts):
        for t in set(key_tokens(p, kk)):
            where.setdefault(t, set()).add(i)
    split = {t: sorted(s) for t, s in where.items() if len(s) > 1}
    if split:
        viols.append({"kind": "key_split_across_partitions", "detail": str(list(split.items())[:3])})
    info["assign"] = {repr(t): min(s) for t, s in where.items()}
    # 3. output subsets
    nsub = 0
    for S in case.get("subsets", []):
        try:
            sp = run_parts(q.partitions[list(S)].optimize(fuse=case.get("fuse", False)).expr)
        except CaseTimeout:
            raise
        except Exception as e:  # noqa: BLE001
            viols.append({"kind": "subset_raises:" + exc_kind(e), "detail": f"{S}: {short(e)}"})
            break
        nsub += 1
        if len(sp) != len(S):
            viols.append({"kind": "subset_npartitions", "detail": f"{S}: {len(sp)}"})
            break
        for s, got in zip(S, sp):
            if sorted(got["rid"].tolist()) != sorted(parts[s]["rid"].tolist()):
                viols.append({"kind": "subset_contents", "detail": f"subset {S}: partition {s} holds rids {sorted(got['rid'].tolist())[:8]} instead of {sorted(parts[s]['rid'].tolist())[:8]}"})
                break
        else:
            continue
        break
    # 3b. two DIFFERENT selections of the same shuffle requested in one graph (a selection and its complement, and the first
    # partition next to the whole shuffle): every row exactly once / the first partition's rows twice
    if not viols and case.get("subsets") and n_out >= 2:
        import dask_expr as dx

        allrids = sorted(r for p_ in parts for r in p_["rid"].tolist())
        first = list(range(max(1, n_out // 2)))
        rest = [i for i in range(n_out) if i not in first]
        for label, pieces, expect in (
            ("selection+complement", [q.partitions[first], q.partitions[rest]], allrids),
            ("partition0+whole", [q.partitions[[0]], q], sorted(allrids + parts[0]["rid"].tolist())),
        ):
            try:
                both = dx.concat(pieces)
                got = run_parts(both.optimize(fuse=case.get("fuse", False)).expr)
                rids = sorted(r for g in got for r in g["rid"].tolist())
            except CaseTimeout:
                raise
            except Exception as e:  # noqa: BLE001
                viols.append({"kind": "two_selections_raise:" + exc_kind(e), "detail": f"{label}: {short(e)}"})
                break
            nsub += 1
            if rids != expect:
                viols.append({"kind": "two_selections_rows", "detail": f"{label}: {len(rids)} rows instead of {len(expect)}"})
                break
    info["subsets"] = nsub
    info["nontrivial"] = case["n_in"] > 1 or n_out > 1
    info["staged"] = bool(case.get("max_branch") and case["n_in"] > case["max_branch"] and n_out > case["max_branch"])
    uniq = {}
    for v in viols:
        uniq.setdefault(v["kind"], v)
    return {"status": "viol" if uniq else "ok", "viols": list(uniq.values()), "info": info}


def evaluate_cross(case):
    """Same key values with int / float / categorical dtype land in the same partition number."""
    try:
        with time_limit(120):
            assigns = {}
            for kk in ("int", "float", "cat", "idxname", "index"):
                c = dict(case, key=kk, subsets=[])
                r = _evaluate(c)
                if r["viols"]:
                    return {"status": "inapplicable", "viols": [], "info": {"why": "single-frame violation reported separately"}}
                assigns[kk] = {float(eval(k)[1]): v for k, v in r["info"]["assign"].items()}
            viols = []
            if not (assigns["int"] == assigns["float"] == assigns["cat"] == assigns["idxname"] == assigns["index"]):
                viols.append({"kind": "partition_number_differs_across_dtypes", "detail": str(assigns)[:300]})
            # observable consequence: a column/column hash join of int keys with float keys equals pandas
            left = tables.from_parts(make_frame(case["n_in"], "int"))
            right = tables.from_parts(make_frame(max(1, case["n_in"] - 1), "float"))
            with dask.config.set({"dataframe.shuffle.method": case["method"]}):
                m = left.merge(right, on="k", how="inner", npartitions=case["n_out"], broadcast=False)
                got = core.run(m.optimize(fuse=False).expr)
            exp = pd.concat(make_frame(case["n_in"], "int")).merge(pd.concat(make_frame(max(1, case["n_in"] - 1), "float")), on="k")
            r = core.compare(exp, got, ordered=False, labelled=False, check_kinds=False)
            if r:
                viols.append({"kind": "mixed_dtype_join_" + r.split(" ")[0], "detail": r})
            # ... and of an integer index referred to by its name with a float column
            li = tables.from_parts(make_frame(case["n_in"], "idxname"))
            with dask.config.set({"dataframe.shuffle.method": case["method"]}):
                m2 = li.merge(right, left_on="ki", right_on="k", how="inner", npartitions=case["n_out"], broadcast=False)
                got2 = core.run(m2.optimize(fuse=False).expr)
            exp2 = pd.concat(make_frame(case["n_in"], "idxname")).merge(pd.concat(make_frame(max(1, case["n_in"] - 1), "float")), left_on="ki", right_on="k")
            r2 = core.compare(exp2, got2, ordered=False, labelled=False, check_kinds=False)
            if r2:
                viols.append({"kind": "index_by_name_join_" + r2.split(" ")[0], "detail": r2})
            # a TWO-column key list must send a key to the same partition whatever the column layout of the frame
            lay = {}
            for name, cols in (("k,j,rid", ["k", "j", "rid"]), ("rid,j,k", ["rid", "j", "k"]), ("j,rid,k", ["j", "rid", "k"])):
                fr = tables.from_parts([p_[cols] for p_ in make_frame(case["n_in"], "int")])
                kw = dict(npartitions=case["n_out"], shuffle_method=case["method"])
                if case.get("max_branch"):
                    kw["max_branch"] = case["max_branch"]
                ps = run_parts(fr.shuffle(on=["k", "j"], **kw).optimize(fuse=False).expr)
                a = {}
                for i, p_ in enumerate(ps):
                    for t in set(zip(p_["k"].tolist(), p_["j"].tolist())):
                        a.setdefault(t, set()).add(i)
                lay[name] = {t: sorted(v) for t, v in sorted(a.items())}
            if len({repr(v) for v in lay.values()}) != 1:
                viols.append({"kind": "partition_number_differs_across_column_layouts", "detail": str(lay)[:300]})
            l2 = tables.from_parts(make_frame(case["n_in"], "int"))
            r2f = [p_[["rid", "j", "k"]].rename(columns={"rid": "rid2", "j": "y", "k": "x"}) for p_ in make_frame(max(1, case["n_in"] - 1), "int")]
            with dask.config.set({"dataframe.shuffle.method": case["method"]}):
                m3 = l2.merge(tables.from_parts(r2f), left_on=["k", "j"], right_on=["x", "y"], how="inner", npartitions=case["n_out"], broadcast=False)
                got3 = core.run(m3.optimize(fuse=False).expr)
            exp3 = pd.concat(make_frame(case["n_in"], "int")).merge(pd.concat(r2f), left_on=["k", "j"], right_on=["x", "y"])
            r3 = core.compare(exp3, got3, ordered=False, labelled=False, check_kinds=False)
            if r3:
                viols.append({"kind": "two_column_join_" + r3.split(" ")[0], "detail": r3})
            return {"status": "viol" if viols else "ok", "viols": viols, "info": {"nontrivial": True}}
    except CaseTimeout as e:
        return {"status": "viol", "viols": [{"kind": "timeout", "detail": str(e)}], "info": {}}
    except Exception as e:  # noqa: BLE001
        return {"status": "viol", "viols": [{"kind": "raises:" + exc_kind(e), "detail": short(e)}], "info": {}}


def dispatch(case):
    return evaluate_cross(case) if case.get("cross") else evaluate(case)


def key(case):
    return ("cross|" if case.get("cross") else "") + ",".join(f"{k}={case[k]}" for k in sorted(case) if k not in ("subsets", "cross")) + (f",subsets={len(case.get('subsets', []))}" if case.get("subsets") else "")


def shrink(case):
    for fld, lo in (("n_in", 1), ("n_out", 1)):
        if case[fld] > lo:
            c = dict(case)
            c[fld] = case[fld] - 1
            c["subsets"] = [S for S in case.get("subsets", []) if max(S) < c["n_out"]]
            yield c
    if case.get("key") not in (None, "int") and not case.get("cross"):
        yield dict(case, key="int")
    if case.get("subsets") and len(case["subsets"]) > 1:
        for S in case["subsets"]:
            yield dict(case, subsets=[S])


def subsets_for(n_out, full):
    idx = list(range(n_out))
    if n_out <= 4 and full:
        out = []
        for r in range(1, n_out + 1):
            out += [list(c) for c in itertools.combinations(idx, r)]
        return out
    out = [[i] for i in idx]
    out += [[j for j in idx if j != i] for i in idx if n_out > 1]
    return out


def run(ctx):
    quick = ctx.tier == "quick"
    nmax = 6 if quick else 9
    branches = [None, 2, 3] if quick else [None, 2, 3, 4, 8]
    cases = []
    for method in ("tasks", "disk"):
        for n_in in range(1, nmax + 1):
            for n_out in range(1, nmax + 1):
                for mb in branches if method == "tasks" else [None]:
                    for ign in (False, True):
                        keys = KEYS if (n_in in (1, 3, nmax) and n_out in (1, 2, nmax - 1)) or not quick else ["int", "str"]
                        for kk in keys:
                            if kk == "idxname" and ign:
                                continue  # the key lives in the index, which ignore_index discards
                            full = kk == "int" and not ign
                            cases.append({"n_in": n_in, "n_out": n_out, "max_branch": mb, "method": method, "ignore_index": ign, "key": kk,
                                          "subsets": subsets_for(n_out, full) if kk in ("int", "str", "index", "idxname") else []})
                    cases.append({"cross": True, "n_in": n_in, "n_out": n_out, "max_branch": mb, "method": method, "ignore_index": False})
    for n_in, n_out, mb in ((5, 5, 2), (6, 3, 2), (3, 6, 2)):
        cases.append({"n_in": n_in, "n_out": n_out, "max_branch": mb, "method": "tasks", "ignore_index": False, "key": "int", "fuse": True, "subsets": subsets_for(n_out, True)})
    ctx.rule = (f"full grid (n_in, n_out) in [1..{nmax}]^2 x max_branch {branches} (single-stage, multi-stage with padding, regrouping when counts differ) x "
                "method tasks/disk x ignore_index x key kind (int, float, str, categorical, with nulls, two columns, index, aligned Series) x every subset of "
                "output partitions (n_out<=4) or all singletons+complements; every key value occurs in every input partition; plus int/float/categorical "
                "partition-number agreement, a mixed-dtype hash join vs pandas, two-column-key agreement across 3 column layouts and a two-column hash join of differently laid out frames; non-trivial = more than one partition on some side")
    res = ctx.map(dispatch, cases, chunk=24)
    ctx.states = len(cases)
    ctx.transitions = sum(1 + len(c.get("subsets", [])) for c in cases)
    staged = 0
    for case, r in res:
        inf = r.get("info", {})
        if inf.get("nontrivial"):
            ctx.nontrivial += 1
        staged += bool(inf.get("staged"))
    ctx.cov["multi_stage_cases"] = staged
    for c in (cases[0], cases[len(cases) // 2], cases[-1]):
        ctx.sample(key(c))
    ctx.assumptions += ["p2p shuffle is unreachable (distributed not installed)", "rows are identified by a unique rid column"]
    return ctx.finish(dispatch, shrink, key)
