"""C08 — expression names are deterministic and collision-free."""
import hashlib
import json
import os
import subprocess
import sys
import tempfile

from mc import core, env, explore, ops as O, tables
from mc.core import compare
from mc.core import STAGES, exc_kind, optimize_until, short, time_limit, CaseTimeout
from mc.env import pd, np
from mc.structkey import ekey, okey

ID = "C08"
NAME_STAGES = ["logical", "simplified-logical", "physical", "fused"]


def _h(x):
    return hashlib.sha1(repr(x).encode()).hexdigest()[:16]


def plans_of(q):
    out = {}
    for st in NAME_STAGES:
        try:
            out[st] = optimize_until(q.expr, st)
        except Exception:  # noqa: BLE001
            pass
    return out


UUID_KEY_PREFIXES = ()  # no exemptions: anything unstable is reported


def names_record(case):
    """Everything name-like a program produces: per stage the node names and the graph key set."""
    from mc.env import dask

    with dask.config.set({"dataframe.shuffle.method": case.get("method", "tasks")}):
        return _names_record(case)


def _names_record(case):
    src = tables.source(case["src"])
    q = O.build(src, case["ops"], method=case.get("method", "tasks"))
    rec = {}
    for st, plan in plans_of(q).items():
        names = sorted(n._name for n in plan.walk())
        rec[st + ":nodes"] = _h(names)
        rec[st + ":top"] = plan._name
    try:
        for label, plan in (("fused", optimize_until(q.expr, "fused")), ("lowered", q.expr.lower_completely())):
            per_class = {}
            for node in plan.walk():
                per_class.setdefault(type(node).__name__, []).extend(sorted(map(repr, node._layer().keys())))
            for cls, keys in per_class.items():
                rec[f"{label}:graph_keys@{cls}"] = _h(sorted(keys))
    except Exception as e:  # noqa: BLE001
        rec["graph"] = "ERR:" + type(e).__name__
    return rec


def dump_records(cases_path, out_path):
    with open(cases_path) as f:
        cases = json.load(f)
    res = {}
    for c in cases:
        try:
            res[explore.prog_key(c)] = names_record(c)
        except Exception as e:  # noqa: BLE001
            res[explore.prog_key(c)] = {"error": type(e).__name__}
    with open(out_path, "w") as f:
        json.dump(res, f)


def cross_process(cases, seeds=(0, 1, 12345, 987654321), shuffle_methods=("tasks", "tasks", "tasks", "tasks")):
    d = tempfile.mkdtemp(prefix="c08_")
    try:
        procs = []
        for i, seed in enumerate(seeds):
            cs = list(cases)
            if i == 1:
                cs = cs[::-1]  # reversed construction order
            if i == 2:
                cs = cs[1::2] + cs[0::2]  # interleaved
            cp, op = os.path.join(d, f"cases{i}.json"), os.path.join(d, f"out{i}.json")
            with open(cp, "w") as f:
                json.dump(cs, f)
            e = dict(os.environ, PYTHONHASHSEED=str(seed), DASK_DATAFRAME__SHUFFLE__METHOD=shuffle_methods[i])
            procs.append((op, subprocess.Popen([sys.executable, "-W", "ignore", "-c",
                          f"import sys; sys.path.insert(0, {env.VERIF!r}); from checks import c08; c08.dump_records({cp!r}, {op!r})"],
                          env=e, cwd=env.VERIF, stderr=subprocess.DEVNULL)))
        outs = []
        for op, p in procs:
            p.wait()
            with open(op) as f:
                outs.append(json.load(f))
    finally:
        import shutil

        shutil.rmtree(d, ignore_errors=True)
    bad = {}
    for k in outs[0]:
        fields = set()
        for o in outs:
            fields |= set(o.get(k, {}))
        for fld in sorted(fields):
            vals = {o.get(k, {}).get(fld) for o in outs}
            if len(vals) > 1:
                bad.setdefault(k, []).append(fld)
    return bad, len(outs[0])


# ---------------------------------------------------------------------------
# per-program evaluation: in-process determinism, (name -> structural key) pairs,
# single-operand variation
# ---------------------------------------------------------------------------


def _mutations(v):
    """Other values of the same flavour (the operand's 'small domain')."""
    from dask_expr._core import Expr
    from dask_expr._util import _BackendData

    if isinstance(v, bool):
        return [not v]
    if isinstance(v, (int, np.integer)):
        return [int(v) + 1, -int(v) - 1]
    if isinstance(v, float):
        return [v + 0.5]
    if isinstance(v, str):
        return [v + "_", v.upper() if v.upper() != v else v.lower() + "x"]
    if v is None:
        return [0, "x"]
    if isinstance(v, list):
        out = []
        if len(v) > 1:
            out += [v[::-1], v[:-1]]
        out.append(v + ["zz"])
        if any(isinstance(x, Expr) for x in v):
            return [v[:-1]] if len(v) > 1 else []
        return [o for o in out if repr(o) != repr(v)]
    if isinstance(v, tuple):
        return [tuple(m) for m in _mutations(list(v))]
    if isinstance(v, dict):
        out = []
        for k in list(v)[:2]:
            for m in _mutations(v[k])[:1]:
                d = dict(v)
                d[k] = m
                out.append(d)
        d = dict(v)
        d["zz"] = 1
        out.append(d)
        return out
    if isinstance(v, _BackendData):
        f = v._data
        return [_BackendData(m) for m in _mutations(f)]
    if isinstance(v, pd.DataFrame) and v.size:
        f = v.copy()
        col = f.columns[0]
        vals = f[col].tolist()
        first = vals[0]
        vals[0] = (first + 1) if isinstance(first, (int, float, np.integer, np.floating)) and first == first else ("q" if not isinstance(first, str) else first + "q")
        try:
            f[col] = pd.Series(vals, index=f.index, dtype=v[col].dtype)
        except Exception:  # noqa: BLE001
            f[col] = vals
        g = v.copy()
        g.index = pd.Index([(i + 1) if isinstance(i, (int, np.integer)) else i for i in g.index], name=g.index.name) if len(g) else g.index
        return [f, g]
    if isinstance(v, pd.Series) and v.size:
        s = v.copy()
        s.iloc[0] = s.iloc[-1] if not (s.iloc[0] == s.iloc[-1]) else s.iloc[0]
        return [s] if not s.equals(v) else []
    if isinstance(v, np.ndarray) and v.size:
        a = v.copy()
        a = a[::-1].copy()
        return [a] if not (a == v).all() else []
    if isinstance(v, Expr):
        return []  # replaced below by sibling expressions
    if callable(v):
        return [_other_callable if v is not _other_callable else _other_callable2]
    return []


def _unstable_kind(fields):
    if any(":nodes" in f or ":top" in f for f in fields):
        return "names"
    classes = sorted({f.split("@")[1] for f in fields if "@" in f})
    return "graph_keys@" + "+".join(classes) if classes else "graph_keys"


def _other_callable(x):
    return x


def _other_callable2(x):
    return x


def variations(node, siblings):
    """Yield (operand index, description, new node) for single-operand replacements."""
    from dask_expr._core import Expr

    ops = node.operands
    for i, v in enumerate(ops):
        cands = _mutations(v)
        if isinstance(v, Expr):
            cands = [s for s in siblings if s._name != v._name][:2]
        for m in cands:
            new_ops = list(ops)
            new_ops[i] = m
            try:
                new = type(node)(*new_ops)
            except Exception:  # noqa: BLE001
                continue
            yield i, type(m).__name__, new


_VERSION = [0]


def _impure_load(i):
    """A source function whose output depends on state outside its arguments (files rewritten between two reads)."""
    d = DATA_TABLES[_VERSION[0]]
    return d.iloc[:3] if i == 0 else d.iloc[3:]


DATA_TABLES = {}


def _data_table(cell):
    base = pd.DataFrame({"k": [1, 2, 3, 4, 5, 6], "v": [10.0, 20.0, 30.0, 40.0, 50.0, 60.0], "s": list("abcdef")})
    if cell is None:
        return base
    r, c = cell
    d = base.copy()
    d.iloc[r, c] = {"k": 99, "v": 0.5, "s": "zz"}[d.columns[c]]
    return d


IMPORT_KINDS = ["from_pandas", "from_dict", "from_array", "from_graph", "persist_from_pandas", "persist_impure_map", "from_legacy", "from_delayed", "from_map_args"]
DERIVED = {"none": lambda x: x, "sum": lambda x: x[x.columns[0]].sum(), "filter_proj": lambda x: x[x[x.columns[0]] > 1][[x.columns[-1]]], "persist": lambda x: x.persist(scheduler="sync")}


def _import(kind, d, version):
    import dask_expr as dx

    if kind == "from_pandas":
        return dx.from_pandas(d, npartitions=2)
    if kind == "from_dict":
        return dx.from_dict(d.to_dict(orient="list"), npartitions=2)
    if kind == "from_array":
        return dx.from_array(d[["k", "v"]].to_numpy(dtype="float64"), chunksize=3, columns=["k", "v"])
    if kind == "from_graph":
        layer = {("part", 0): d.iloc[:3], ("part", 1): d.iloc[3:]}
        return dx.from_graph(layer, d.iloc[:0], (None, None, None), [("part", 0), ("part", 1)], "imported")
    if kind == "persist_from_pandas":
        return dx.from_pandas(d, npartitions=2).persist(scheduler="sync")
    if kind == "persist_impure_map":
        DATA_TABLES[version] = d
        _VERSION[0] = version
        return dx.from_map(_impure_load, [0, 1], meta=d.iloc[:0]).persist(scheduler="sync")
    if kind == "from_legacy":
        import dask.dataframe as dd  # noqa: F401

        return dx.from_legacy_dataframe(dx.from_pandas(d, npartitions=2).to_legacy_dataframe())
    if kind == "from_delayed":
        from dask import delayed

        return dx.from_delayed([delayed(d.iloc[:3], pure=True), delayed(d.iloc[3:], pure=True)], meta=d.iloc[:0])
    if kind == "from_map_args":
        return dx.from_map(_ident, [d.iloc[:3], d.iloc[3:]], meta=d.iloc[:0])
    raise ValueError(kind)


def _ident(x):
    return x


def evaluate_data(case):
    """Equal-looking inputs with different data: same import path, same shape / labels / dtypes, ONE cell differs."""
    viols, info = [], {"nontrivial": True}
    try:
        with time_limit(90):
            base = _data_table(None)
            other = _data_table(tuple(case["cell"]))
            if case["kind"] == "from_array" and base.columns[case["cell"][1]] == "s":
                return {"status": "rejected", "viols": [], "info": {"why": "column not in the array"}}
            a0 = _import(case["kind"], base, 0)
            b0 = _import(case["kind"], other, 1)
            fn = DERIVED[case["derived"]]
            a, b = fn(a0), fn(b0)
            # the first collection is still alive: equal names would make the second one the same object
            if a._name == b._name:
                viols.append({"kind": "same_name_for_different_data", "detail": f"{a._name}"})
            na = {e._name for e in a.expr.walk()}
            nb = {e._name for e in b.expr.walk()}
            va = core.run(a.optimize().expr)
            vb = core.run(b.optimize().expr)

            def ref(d):
                d = d[["k", "v"]].astype("float64") if case["kind"] == "from_array" else d
                if case["derived"] == "sum":
                    return d[d.columns[0]].sum()
                if case["derived"] == "filter_proj":
                    return d[d[d.columns[0]] > 1][[d.columns[-1]]]
                return d
            for nm, got, d in (("first", va, base), ("second", vb, other)):
                r = compare(ref(tables.dask_dtypes(d)), got, ordered=True, labelled=False, check_kinds=False)
                if r:
                    viols.append({"kind": f"{nm}_collection_wrong:" + r.split(" ")[0], "detail": r})
            # rebuilding the second one again (same data) must give the same name
            b1 = fn(_import(case["kind"], other, 1))
            if b1._name != b._name:
                viols.append({"kind": "same_data_two_names", "detail": f"{b._name} / {b1._name}"})
            info["shared_node_names"] = len(na & nb)
    except CaseTimeout as e:
        return {"status": "viol", "viols": [{"kind": "timeout", "detail": str(e)}], "info": {}}
    except Exception as e:  # noqa: BLE001
        return {"status": "viol", "viols": [{"kind": "raises:" + core.exc_kind(e), "detail": core.short(e)}], "info": info}
    return {"status": "viol" if viols else "ok", "viols": viols, "info": info}


def evaluate(case, keep_pairs=False):
    if case.get("mode") == "pair":
        return evaluate_pair(case)
    if case.get("mode") == "data":
        return evaluate_data(case)
    r = _evaluate_main(case)
    if not keep_pairs:
        r.get("info", {}).pop("pairs", None)
    return r


def _evaluate_main(case):
    if case.get("mode") == "xproc":
        bad, _ = cross_process([{"src": case["src"], "ops": case["ops"]}])
        viols = []
        for k, flds in bad.items():
            viols.append({"kind": "unstable_across_processes:" + _unstable_kind(flds), "detail": f"fields {flds}"})
        return {"status": "viol" if viols else "ok", "viols": viols, "info": {}}
    try:
        with time_limit(90):
            return _evaluate(case)
    except CaseTimeout as e:
        return {"status": "viol", "viols": [{"kind": "timeout", "detail": str(e)}], "info": {}}


def _evaluate(case):
    info, viols = {}, []
    try:
        src = tables.source(case["src"])
        q = O.build(src, case["ops"], method=case.get("method", "tasks"))
        info["kind"] = O.kind_of(q)
        info["skey"] = ekey(q.expr)
    except CaseTimeout:
        raise
    except Exception as e:  # noqa: BLE001
        return {"status": "rejected", "viols": [], "info": {"why": short(e)}}
    # in-process determinism: rebuild twice (the second time after unrelated work)
    try:
        r1 = names_record(case)
        tables.source("T2:2").groupby("a").e.sum().optimize()
        r2 = names_record(case)
        diff = sorted(k for k in set(r1) | set(r2) if r1.get(k) != r2.get(k))
        if diff:
            viols.append({"kind": "unstable_in_process:" + _unstable_kind(diff), "detail": f"fields {diff}"})
    except CaseTimeout:
        raise
    except Exception as e:  # noqa: BLE001
        return {"status": "inapplicable", "viols": [], "info": {"why": short(e), **info}}
    # name -> structural key pairs of every node of every stage plan
    pairs = {}
    plans = plans_of(q)
    memo = {}
    allnodes = []
    for st, plan in plans.items():
        for n in plan.walk():
            k = ekey(n, memo)
            if n._name in pairs and pairs[n._name] != k:
                viols.append({"kind": "name_collision:" + type(n).__name__, "detail": f"{n._name} has two structures within one program"})
            pairs[n._name] = k
            allnodes.append(n)
    info["pairs"] = pairs
    # single-operand variation
    nvar = 0
    if case.get("vary", True):
        seen_nodes = set()
        sources = [n for n in allnodes if not n.dependencies()]
        for n in allnodes:
            if n._name in seen_nodes:
                continue
            seen_nodes.add(n._name)
            sibs = [m for m in allnodes if type(m) is not type(n)][:6] + sources
            for i, what, new in variations(n, sibs):
                nvar += 1
                if new._name == n._name and ekey(new) != ekey(n):
                    pname = type(n)._parameters[i] if i < len(type(n)._parameters) else f"operand{i}"
                    viols.append({"kind": f"name_ignores_operand:{type(n).__name__}.{pname}", "detail": f"replacing operand {i} ({pname}) by another {what} keeps the name {n._name}"})
    info["variations"] = nvar
    info["nontrivial"] = len(pairs) > 1
    uniq = {}
    for v in viols:
        uniq.setdefault(v["kind"], v)
    return {"status": "viol" if uniq else "ok", "viols": list(uniq.values()), "info": info}


def run(ctx):
    if ctx.tier == "quick":
        plan = [(["T:3"], [2, 1]), (["T:d3", "T:m4,8", "T:a3"], [2])] + explore.extra_stages("light")
    else:
        plan = [(["T:3"], [2, 2]), (["T:3"], [1, 1, 1]), (["T:1", "T:u4", "TX:3"], [2, 2])]
    ctx.rule = ("E1 BFS over programs; per program: names of every node of the logical/simplified/physical/fused plan and the graph key "
                "set, rebuilt twice in process and in 4 fresh interpreters with different PYTHONHASHSEED and construction orders, must be "
                "identical; the map name -> independent structural key over ALL nodes produced by the whole exploration must be a function "
                "(equal name => equal structure); every operand of every node is replaced by other values of its domain and the name must "
                "change; equal-looking inputs (9 import paths incl. persist / from_graph / from_delayed / legacy, same shape and labels, ONE cell differs, x 4 derived queries) "
                "must get different names and each its own values; non-trivial = program with more than one node")
    global_pairs = {}
    okcases = []
    nvar = 0
    collisions = []
    for sources, tiers in plan:
        res = explore.bfs(ctx, evaluate, sources, tiers, args=(True,))
        for case, r in res:
            inf = r.get("info", {})
            nvar += inf.get("variations", 0)
            for name, k in inf.pop("pairs", {}).items():
                if name in global_pairs and global_pairs[name][0] != k:
                    collisions.append((case, global_pairs[name][1], name))
                else:
                    global_pairs.setdefault(name, (k, case))
            if r["status"] in ("ok", "viol") and inf.get("skey"):
                okcases.append({"src": case["src"], "ops": case["ops"]})
            if r["status"] == "ok" and len(case["ops"]) == len(tiers):
                ctx.sample(explore.prog_key(case), cap=10)
    # the default (disk) shuffle method on a handful of shuffle-bearing programs
    disk_cases = [{"src": "T:2", "ops": ops, "method": "disk", "vary": False} for ops in (["shuffle_a"], ["sort_u"], ["set_index_u"], ["merge_T2_inner"], ["dropdup"], ["gb_a_sum_so2"])]
    ctx.map(evaluate, disk_cases, chunk=2)
    data_cases = [{"mode": "data", "kind": k, "cell": [r, c], "derived": dv} for k in IMPORT_KINDS for r in (0, 2, 3, 5) for c in (0, 1, 2) for dv in DERIVED]
    ctx.map(evaluate, data_cases, chunk=16)
    ctx.cov["equal_looking_inputs_cases"] = len(data_cases)
    ctx.cov["distinct_names"] = len(global_pairs)
    ctx.cov["operand_variations"] = nvar
    for case, other, name in collisions[:50]:
        c = dict(case)
        c["mode"] = "pair"
        c["other"] = {"src": other["src"], "ops": other["ops"]}
        ctx.failures.append((c, {"kind": "name_collision_across_programs", "detail": f"{name} built with different structure by {explore.prog_key(other)}"}))
    from checks.c19 import LARGE_PROGRAMS

    okcases += [{"src": src, "ops": ops} for src, ops in LARGE_PROGRAMS]
    bad, n = cross_process(okcases)
    ctx.cov["cross_process_programs"] = n
    ctx.evaluations += 4 * n
    for k, flds in bad.items():
        src, _, opsstr = k.partition("|")
        case = {"src": src, "ops": [o for o in opsstr.split(",") if o], "mode": "xproc"}
        kind = "unstable_across_processes:" + _unstable_kind(flds)
        ctx.failures.append((case, {"kind": kind, "detail": f"fields {flds}"}))
    return ctx.finish(evaluate, shrink, key)


def key(case):
    if case.get("mode") == "data":
        return f"data|{case['kind']}|cell={case['cell']}|{case['derived']}"
    return explore.prog_key(case)


def shrink(case):
    if case.get("mode") == "data":
        if case["derived"] != "none":
            yield dict(case, derived="none")
        if case["cell"] != [0, 0]:
            yield dict(case, cell=[0, 0])
        return
    yield from explore.shrink_prog(case)


def evaluate_pair(case):
    if True:
        a = _evaluate({"src": case["src"], "ops": case["ops"], "vary": False})
        b = _evaluate({"src": case["other"]["src"], "ops": case["other"]["ops"], "vary": False})
        pa, pb = a.get("info", {}).get("pairs", {}), b.get("info", {}).get("pairs", {})
        viols = []
        for name in set(pa) & set(pb):
            if pa[name] != pb[name]:
                viols.append({"kind": "name_collision_across_programs", "detail": f"{name}"})
                break
        return {"status": "viol" if viols else "ok", "viols": viols, "info": {}}
