"""The typed operation alphabet (DESIGN §3).

Every entry is a function of one collection ``x`` (a dask-expr collection or,
for the pandas oracle, a pandas object).  Entries that use ``x`` several times
create shared sub-expressions (one intermediate, several consumers); entries
named ``*_T2`` bring in the second table.  ``pd`` is the pandas spelling when
it differs from the dask one.

Static facts (DESIGN 2.5):
  order   keep | sorted | lose     what the op does to the defined row order
  labels  keep | new | lose        what it does to index labels
  osens   value depends on the row order of its input
  lsens   value depends on the index labels of its input
"""
from dataclasses import dataclass, field
from typing import Callable, Optional

from mc.env import np, pd


@dataclass
class Op:
    name: str
    inp: str  # df | s | any
    fn: Callable
    pd: Optional[Callable] = None
    order: str = "keep"
    labels: str = "keep"
    osens: bool = False
    lsens: bool = False
    tier: int = 1
    approx: bool = False
    tags: tuple = ()

    def apply(self, x, pandas=False):
        if pandas and self.pd is not None:
            return self.pd(x)
        return self.fn(x)


OPS = {}


def op(name, inp, fn, pd=None, **kw):
    assert name not in OPS, name
    OPS[name] = Op(name, inp, fn, pd, **kw)


def T2c():
    """The second table as a collection of the same flavour as needed."""
    from mc import tables

    return tables.source("T2:2")


def _T2(x):
    from mc import tables

    if isinstance(x, (pd.DataFrame, pd.Series)):
        return tables.T2
    return tables.source("T2:2")


ident = lambda x: x  # noqa: E731


# --------------------------------------------------------------------------
# tier 1: Σ_core — the rewrite-rule hot spots
# --------------------------------------------------------------------------
op("proj_ab", "df", lambda x: x[["a", "b"]])
op("proj_ba", "df", lambda x: x[["b", "a"]])
op("proj_abu", "df", lambda x: x[["a", "b", "u"]])
op("proj_cd", "df", lambda x: x[["c", "d"]])
op("proj_a1", "df", lambda x: x[["a"]])
op("proj_bb", "df", lambda x: x[["b", "b"]], tier=4)
op("col_a", "df", lambda x: x["a"])
op("col_b", "df", lambda x: x["b"])
op("col_u", "df", lambda x: x["u"], tier=2)
op("col_c", "df", lambda x: x["c"], tier=2)

op("filt_a_gt2", "df", lambda x: x[x["a"] > 2])
op("filt_b_le2", "df", lambda x: x[x["b"] <= 2.5])
op("filt_and", "df", lambda x: x[(x["a"] > 1) & (x["b"] < 4)])
op("filt_or_common", "df", lambda x: x[((x["a"] > 1) & (x["b"] < 4)) | ((x["a"] > 1) & (x["d"] == 1))])
op("filt_vs_mean", "df", lambda x: x[x["b"] > x["b"].mean()])
op("filt_idx", "df", lambda x: x[x.index.to_series() > 3], lsens=True, tier=4)
op("filt_none", "df", lambda x: x[x["a"] > 100])
op("filt_s_gt1", "s", lambda x: x[x > 1])

op("assign_z", "df", lambda x: x.assign(z=x["a"] + 1))
op("assign_over_a", "df", lambda x: x.assign(a=x["a"] * 2))
op("assign_zz", "df", lambda x: x.assign(z=x["a"] + 1).assign(w=lambda df: df["z"] * 2) if isinstance(x, pd.DataFrame) else _assign_zz(x))
op("rename_ab", "df", lambda x: x.rename(columns={"a": "A", "b": "B"}))
op("rename_swap", "df", lambda x: x.rename(columns={"a": "b", "b": "a"}), tier=2)
op("reset_index", "df", lambda x: x.reset_index(), labels="lose", lsens=True)
op("reset_index_drop", "any", lambda x: x.reset_index(drop=True), labels="lose")
op("set_index_u", "df", lambda x: x.set_index("u"), pd=lambda x: x.set_index("u").sort_index(), order="sorted", labels="new", tags=("by_u",))
op("set_index_a", "df", lambda x: x.set_index("a"), pd=lambda x: x.set_index("a").sort_index(kind="stable"), order="lose", labels="new")
op("set_index_d_np2", "df", lambda x: x.set_index("d", npartitions=2), pd=lambda x: x.set_index("d").sort_index(kind="stable"), order="lose", labels="new", tier=2)
op("sort_u", "df", lambda x: x.sort_values("u"), order="sorted", tags=("by_u",))
op("sort_a", "df", lambda x: x.sort_values("a"), order="lose")
op("sort_b_desc", "df", lambda x: x.sort_values("b", ascending=False), order="lose", tier=2)
op("sort_a_u", "df", lambda x: x.sort_values(["a", "u"]), order="sorted", tier=2, tags=("by_u",))
op("merge_T2_inner", "df", lambda x: x.merge(_T2(x), on="a"), order="lose", labels="lose", tags=("dup",))
op("merge_T2_left", "df", lambda x: x.merge(_T2(x), on="a", how="left"), order="lose", labels="lose", tags=("dup",))
op("merge_T2_outer", "df", lambda x: x.merge(_T2(x), on="a", how="outer"), order="lose", labels="lose", tier=2, tags=("dup",))
op("merge_T2_right", "df", lambda x: x.merge(_T2(x), on="a", how="right"), order="lose", labels="lose", tier=2, tags=("dup",))
op("merge_self_agg", "df", lambda x: x.merge(x.groupby("a")["b"].sum().reset_index(), on="a"), order="lose", labels="lose", tier=2, tags=("dup",))
op("gb_a_agg", "df", lambda x: x.groupby("a").agg({"b": "sum", "u": "max"}), order="lose", labels="new")
op("gb_a_b_sum", "df", lambda x: x.groupby("a")["b"].sum(), order="lose", labels="new")
op("gb_a_sum", "df", lambda x: x.groupby("a").sum(numeric_only=True), order="lose", labels="new", tier=2)
op("sum_b", "df", lambda x: x["b"].sum())
op("sum", "any", lambda x: x.sum(numeric_only=True) if _isframe(x) else x.sum(), order="sorted", labels="new")
op("count", "any", lambda x: x.count(), order="sorted", labels="new")
op("len", "any", lambda x: _len(x), pd=lambda x: len(x), tier=2)
op("head3", "any", lambda x: _head(x, 3), pd=lambda x: x.head(3), osens=True, tags=("psens",))
op("head7_all", "any", lambda x: _head(x, 7, npartitions=-1), pd=lambda x: x.head(7), osens=True)
op("tail3", "any", lambda x: _tail(x, 3), pd=lambda x: x.tail(3), osens=True, tags=("psens",))
op("part1", "any", lambda x: x.partitions[1], pd=None, tags=("psens", "daskonly"))
op("part_20", "any", lambda x: x.partitions[[2, 0]], pd=None, tags=("psens", "daskonly"), tier=2)
op("repart2", "any", lambda x: x.repartition(npartitions=2), pd=ident)
op("repart5", "any", lambda x: x.repartition(npartitions=5), pd=ident, tier=2)
op("shuffle_a", "df", lambda x: x.shuffle("a"), pd=ident, order="lose")
op("shuffle_a_np2", "df", lambda x: x.shuffle("a", npartitions=2), pd=ident, order="lose", tier=2)
op("index", "any", lambda x: x.index, lsens=True)
op("size", "any", lambda x: x.size, tier=2)

# --------------------------------------------------------------------------
# tier 2: Σ_mid
# --------------------------------------------------------------------------
op("add_prefix", "df", lambda x: x.add_prefix("p_"), tier=2)
op("add_suffix", "df", lambda x: x.add_suffix("_s"), tier=2)
op("astype_f", "df", lambda x: x.astype({"a": "float64"}), tier=2)
op("fillna0", "any", lambda x: x.fillna(0) if not _hasstr(x) else x.fillna({"b": 0.0}), tier=2)
op("dropna_b", "df", lambda x: x.dropna(subset=["b"]), tier=2)
op("dropna", "any", lambda x: x.dropna(), tier=2)
op("drop_c", "df", lambda x: x.drop(columns=["c"]), tier=2)
# keep="first" keeps the FIRST occurrence in input order (dask-expr picks an order-preserving shuffle for it): which rows survive,
# and therefore their labels, are defined; only the order of the surviving rows is not
op("dropdup_a", "df", lambda x: x.drop_duplicates(subset=["a"]), order="lose", osens=True, tier=2)
op("dropdup", "any", lambda x: x.drop_duplicates(), order="lose", osens=True, tier=2)
op("isin_a", "df", lambda x: x[x["a"].isin([1, 4, 6])], tier=2)
# a value container holding LAZY elements (a scalar reduction next to literals): the container is imported into the graph
op("isin_lazy", "df", lambda x: x[x["a"].isin([x["a"].min(), 4])] if not isinstance(x, pd.DataFrame) else x[x["a"].isin([x["a"].min(), 4])], tier=3)
op("abs", "any", lambda x: x.abs(), tier=2)
op("isna", "any", lambda x: x.isna(), tier=2)
op("add1", "any", lambda x: x + 1, tier=2)
op("mul_self", "any", lambda x: x * x, tier=2)
op("a_plus_b", "df", lambda x: x["a"] + x["b"], tier=2)
op("sub_mean", "df", lambda x: x["b"] - x["b"].mean(), tier=2)
op("s_add_sum", "s", lambda x: x + x.sum(), tier=2)
op("where", "df", lambda x: x.where(x["a"] > 2), tier=2)
op("mask_s", "s", lambda x: x.mask(x > 2), tier=2)
op("clip", "any", lambda x: x.clip(lower=1, upper=4), tier=2)
op("round", "any", lambda x: x.round(0), tier=2)
op("between", "s", lambda x: x.between(1, 3), tier=2)
op("cumsum", "any", lambda x: _num(x).cumsum(), osens=True, tier=2)
op("cummax", "any", lambda x: _num(x).cummax(), osens=True, tier=2)
op("shift1", "any", lambda x: x.shift(1), osens=True, tier=2)
op("diff1", "any", lambda x: _num(x).diff(1), osens=True, tier=2)
op("shift_1_2", "df", lambda x: x["a"].shift(1) + x["a"].shift(2), osens=True, tier=2)
op("ffill", "any", lambda x: x.ffill(), osens=True, tier=2)
op("rolling2_sum", "any", lambda x: _num(x).rolling(2).sum(), osens=True, tier=2)
op("mean", "any", lambda x: x.mean(numeric_only=True) if _isframe(x) else x.mean(), tier=2, order="sorted", labels="new")
op("min", "any", lambda x: x.min(numeric_only=True) if _isframe(x) else x.min(), tier=2, order="sorted", labels="new")
op("max", "any", lambda x: x.max(numeric_only=True) if _isframe(x) else x.max(), tier=2, order="sorted", labels="new")
op("var", "any", lambda x: x.var(numeric_only=True) if _isframe(x) else x.var(), tier=2, order="sorted", labels="new")
op("std", "any", lambda x: x.std(numeric_only=True) if _isframe(x) else x.std(), tier=2, order="sorted", labels="new")
op("any_", "s", lambda x: (x > 2).any(), tier=2)
op("all_", "s", lambda x: (x > 0).all(), tier=2)
op("idxmax", "s", lambda x: x.idxmax(), lsens=True, osens=True, tier=2)
op("nunique", "s", lambda x: x.nunique(), tier=2)
op("mode", "s", lambda x: x.mode(), labels="lose", tier=2)
op("value_counts", "s", lambda x: x.value_counts(), order="lose", labels="new", tier=2)
op("unique", "s", lambda x: x.unique(), pd=lambda x: pd.Series(x.unique(), name=x.name), order="lose", labels="lose", tier=2)
op("nlargest2_u", "df", lambda x: x.nlargest(2, "u"), order="sorted", tier=2, tags=("by_u",))
op("nsmallest3_b", "df", lambda x: x.nsmallest(3, "b"), order="lose", osens=True, tier=2)
op("s_nlargest2", "s", lambda x: x.nlargest(2), order="lose", osens=True, tier=2)
op("gb_a_mean", "df", lambda x: x.groupby("a")["b"].mean(), order="lose", labels="new", tier=2)
op("gb_a_size", "df", lambda x: x.groupby("a").size(), order="lose", labels="new", tier=2)
op("gb_a_first", "df", lambda x: x.groupby("a")["u"].first(), order="lose", labels="new", osens=True, tier=2)
op("gb_a_var", "df", lambda x: x.groupby("a")["b"].var(), order="lose", labels="new", tier=2)
op("gb_a_nunique", "df", lambda x: x.groupby("a")["d"].nunique(), order="lose", labels="new", tier=2)
op("gb_ad_sum", "df", lambda x: x.groupby(["a", "d"])["b"].sum(), order="lose", labels="new", tier=2)
op("gb_a_sum_so2", "df", lambda x: x.groupby("a")["b"].sum(split_out=2), pd=lambda x: x.groupby("a")["b"].sum(), order="lose", labels="new", tier=2)
op("gb_a_nosort", "df", lambda x: x.groupby("a", sort=False)["b"].sum(), order="lose", labels="new", tier=2)
op("gb_a_cumsum", "df", lambda x: x.groupby("a")["b"].cumsum(), osens=True, tier=2)
op("gb_a_transform", "df", lambda x: x.groupby("a")["b"].transform("sum"), order="lose", tier=2)
op("gb_a_apply", "df", lambda x: x.groupby("a")[["b", "u"]].apply(_gb_apply_fn), order="lose", tier=2)
op("gb_a_median", "df", lambda x: x.groupby("a")["b"].median(), order="lose", labels="new", tier=2)
op("gb_key_series", "df", lambda x: x.groupby(x["a"])["b"].sum(), order="lose", labels="new", tier=2)
op("concat_self", "df", lambda x: _concat([x, x]), order="keep", tier=2, tags=("dup",))
op("concat_T2", "df", lambda x: _concat([x, _T2(x)]), tier=2, tags=("dup",))
op("concat_ax1", "df", lambda x: _concat([x[["a"]], x[["b"]]], axis=1), tier=2)
op("concat_filt", "df", lambda x: _concat([x[x["a"] > 2], x[x["a"] <= 2]]), tier=2)
op("join_agg", "df", lambda x: x.set_index("a")[["u"]].join(x.groupby("a")[["b"]].sum()), order="lose", labels="new", tier=2)
op("combine_first", "df", lambda x: x[["b"]].combine_first(x[["a"]]), tier=2, lsens=True)
op("map_partitions", "df", lambda x: x.map_partitions(_mp_fn), pd=lambda x: _mp_fn(x), tier=2)
def _mp_rowwise(df):
    # row-wise apply that builds new columns: on a frame WITHOUT rows pandas returns the input's columns instead
    return df.apply(lambda r: pd.Series({"p": r["a"] * 2, "q": r["u"] + 1}), axis=1)


def _mp_rowwise_s(df):
    return df.apply(lambda r: r["a"] * 2 + r["u"], axis=1)


# partitions that come out empty (a > 4 leaves rows in one partition only) and a function whose schema on no rows differs
op("mp_rowwise_sparse", "df", lambda x: x[x["a"] > 4][["a", "u"]].map_partitions(_mp_rowwise), pd=lambda x: _mp_rowwise(x[x["a"] > 4][["a", "u"]]), tier=2)
op("mp_rowwise_sparse_s", "df", lambda x: x[x["a"] > 4][["a", "u"]].map_partitions(_mp_rowwise_s), pd=lambda x: _mp_rowwise_s(x[x["a"] > 4][["a", "u"]]), tier=2)
op("mp_rowwise_none", "df", lambda x: x[x["a"] > 99][["a", "u"]].map_partitions(_mp_rowwise), pd=None, tier=2, tags=("daskonly",))
op("map_partitions_len", "any", lambda x: x.map_partitions(len), pd=None, tags=("psens", "daskonly"), tier=4)
op("map_overlap", "df", lambda x: x[["a", "b"]].map_overlap(_mo_fn, 1, 0), pd=lambda x: _mo_fn(x[["a", "b"]]), osens=True, tier=2)
op("loc_slice", "any", lambda x: x.loc[2:7], lsens=True, osens=True, tier=2)
op("loc_bool", "df", lambda x: x.loc[x["a"] > 2], tier=2)
op("loc_cols", "df", lambda x: x.loc[:, ["a", "b"]], tier=2)
op("loc_list", "any", lambda x: x.loc[[9, 1, 10, 5]], lsens=True, osens=True, tier=2)
op("loc_list_sorted", "any", lambda x: x.loc[[1, 5, 9]], lsens=True, osens=True, tier=2)
op("loc_elem", "any", lambda x: x.loc[5:5], lsens=True, osens=True, tier=2)
op("combine_first_rows", "df", lambda x: x[["b"]].combine_first(x[x["a"] > 2][["b", "u"]]), lsens=True, tier=2)
op("combine_first_sel", "df", lambda x: x[["b"]].combine_first(x[x["a"] > 2][["b", "u"]])[["u"]], lsens=True, tier=2)
op("combine_first_T2", "df", lambda x: x[["b", "d"]].combine_first(_T2(x)[["b", "e"]])["e"], lsens=True, tier=2)
op("to_frame", "s", lambda x: x.to_frame(), tier=2)
op("s_rename", "s", lambda x: x.rename("renamed"), tier=2)
op("clear_div", "any", lambda x: x.clear_divisions(), pd=ident, tier=2)
op("explode", "s", lambda x: x.explode(), tier=3, tags=("dup",))
op("sample", "any", lambda x: x.sample(frac=0.5, random_state=1), pd=None, tags=("daskonly",), tier=3)
op("mem_usage", "df", lambda x: _num(x).memory_usage_per_partition(), pd=None, tags=("daskonly", "psens"), tier=3)  # numeric columns: byte counts of object / categorical values differ between processes
op("enforce_div", "any", lambda x: x.enforce_runtime_divisions(), pd=ident, tier=3)
op("isin_c", "df", lambda x: x[x["c"].isin(["x", "z"])], tier=2)
op("str_upper", "df", lambda x: x.assign(c=x["c"].str.upper()), tier=3)
op("astype_cat", "df", lambda x: x.astype({"c": "category"}), tier=3)
op("describe", "df", lambda x: x[["a", "b"]].describe(), approx=True, tier=3)
op("quantile", "s", lambda x: x.quantile(0.5), approx=True, tier=3)
op("cov", "df", lambda x: x[["a", "b", "u"]].cov(), tier=3)
op("corr", "df", lambda x: x[["a", "b", "u"]].corr(), tier=3)
op("query", "df", lambda x: x.query("a > 2"), tier=3)
op("eval", "df", lambda x: x.eval("z = a + b"), tier=3)
op("pivot_table", "df", lambda x: _pivot(x), order="lose", labels="new", tier=3)
op("get_dummies", "df", lambda x: _dummies(x), tier=3)
op("nlargest2_cols", "df", lambda x: x.nlargest(2, ["u", "a"]), order="sorted", tier=3, tags=("by_u",))
op("squeeze", "df", lambda x: x[["a"]].squeeze(axis=1), tier=3)
op("align_first", "df", lambda x: x[["a"]].align(x[["b"]])[0], tier=3)
op("dot_like", "df", lambda x: (x["a"] * x["b"]).sum(), tier=3)
op("min_max", "df", lambda x: x["a"].max() - x["a"].min(), tier=3)



# --------------------------------------------------------------------------
# the same operator class applied twice to ONE frame with different parameters, combined in
# one query: helper task keys must be unique per expression, not per input frame
# --------------------------------------------------------------------------
op("twice_repart", "any", lambda x: _concat([x.repartition(npartitions=5), x.repartition(npartitions=4)]), pd=lambda x: _concat([x, x]), tier=2, tags=("twice",))
op("twice_repart_unknown", "any", lambda x: (lambda y: _concat([y.repartition(npartitions=5), y.repartition(npartitions=7)]))(x.clear_divisions()), pd=lambda x: _concat([x, x]), tier=2, tags=("twice",))
# many AND-ed conditions: every conjunct costs the simplifier extra passes while a balanced tree adds almost no depth
def _conj(x, k, balanced):
    atoms = [x["a"] > 0, x["u"] >= 1, x["d"] >= 0, x["a"] < 6, x["u"] < 11, x["d"] < 2, x["a"] != 4, x["u"] != 5][:k]
    if not balanced:
        out = atoms[0]
        for t in atoms[1:]:
            out = out & t
        return x[out]
    while len(atoms) > 1:
        atoms = [atoms[i] & atoms[i + 1] if i + 1 < len(atoms) else atoms[i] for i in range(0, len(atoms), 2)]
    return x[atoms[0]]


op("filt_and4_nested", "df", lambda x: _conj(x, 4, False), tier=2)
op("filt_and6_balanced", "df", lambda x: _conj(x, 6, True))
op("filt_and8_nested", "df", lambda x: _conj(x, 8, False))
op("filt_and8_balanced", "df", lambda x: _conj(x, 8, True), tier=2)
op("repart_size200", "df", lambda x: x.repartition(partition_size=200), pd=ident, tier=2)
op("twice_repart_size", "df", lambda x: _concat([x.repartition(partition_size=200), x.repartition(partition_size=100)]), pd=lambda x: _concat([x, x]), tier=2, tags=("twice",))
op("twice_repart_size_merge", "df", lambda x: _concat([x.repartition(partition_size=100), x.repartition(partition_size=600)]), pd=lambda x: _concat([x, x]), tier=2, tags=("twice",))
op("twice_repart_fewer", "any", lambda x: _concat([x.repartition(npartitions=2), x.repartition(npartitions=1)]), pd=lambda x: _concat([x, x]), tier=2, tags=("twice",))
op("twice_shuffle", "df", lambda x: _concat([x.shuffle("a"), x.shuffle("d")]), pd=lambda x: _concat([x, x]), order="lose", tier=2, tags=("twice",))
op("twice_shuffle_np", "df", lambda x: _concat([x.shuffle("a", npartitions=2), x.shuffle("a", npartitions=4)]), pd=lambda x: _concat([x, x]), order="lose", tier=2, tags=("twice",))
op("twice_sort", "df", lambda x: _concat([x.sort_values("u"), x.sort_values("u", ascending=False)]), order="sorted", tier=2, tags=("twice", "by_u"))
op("twice_rolling", "df", lambda x: x["a"].rolling(2).sum() + x["a"].rolling(3).sum(), osens=True, tier=2, tags=("twice",))
op("twice_merge", "df", lambda x: _concat([x.merge(_T2(x), on="a", how="inner"), x.merge(_T2(x), on="a", how="left")]), order="lose", labels="lose", tier=2, tags=("twice",))
op("twice_head", "df", lambda x: _concat([_head(x, 2), _head(x, 3)]), pd=lambda x: _concat([x.head(2), x.head(3)]), osens=True, tier=2, tags=("twice",))
op("twice_loc", "df", lambda x: _concat([x.loc[1:3], x.loc[2:7]]), lsens=True, osens=True, tier=2, tags=("twice",))
op("twice_reduce", "df", lambda x: x["b"].sum(split_every=2) + x["u"].sum(split_every=3) if not isinstance(x, pd.DataFrame) else x["b"].sum() + x["u"].sum(), tier=2, tags=("twice",))
op("twice_dropdup", "df", lambda x: _concat([x.drop_duplicates(subset=["a"])[["a"]], x.drop_duplicates(subset=["d"])[["d"]]]), order="lose", labels="lose", tier=2, tags=("twice",))
op("twice_gb", "df", lambda x: _concat([x.groupby("a")["b"].sum().to_frame(), x.groupby("d")["b"].sum().to_frame()]), order="lose", labels="new", tier=2, tags=("twice",))
op("twice_cum", "df", lambda x: x["b"].cumsum() + x["b"].cummax(), osens=True, tier=2, tags=("twice",))
op("scalar_chain", "df", lambda x: x["a"] * ((x["b"].sum() + 1) * 2 - 3) + x["u"] * ((x["u"].max() + 1) * 2), tier=2, tags=("nested",))
op("scalar_chain2", "df", lambda x: (x[["a", "u"]] - (x["a"].min() * 2 + 1)) / ((x["u"].max() - 1) * 0.5 + 2), tier=2, tags=("nested",))
op("reopt_combine", "df", lambda x: ((x["a"] + 1) * 2).optimize() - x["b"] * 3 if not isinstance(x, pd.DataFrame) else ((x["a"] + 1) * 2) - x["b"] * 3, tier=2, tags=("nested",))
op("reopt_scalar_bcast", "df", lambda x: x["a"] / ((x["a"].sum() + 1) * 2).optimize() if not isinstance(x, pd.DataFrame) else x["a"] / ((x["a"].sum() + 1) * 2), tier=2, tags=("nested",))
op("reopt_inner_cum", "df", lambda x: x["b"].cumsum() - ((x["a"].cumsum() + 1) * 2).optimize() if not isinstance(x, pd.DataFrame) else x["b"].cumsum() - ((x["a"].cumsum() + 1) * 2), osens=True, tier=2, tags=("nested",))
op("reopt_filter", "df", lambda x: (lambda o: o[o["a"] > 1][["a", "b"]])(x.assign(z=x["a"] + 1).optimize()) if not isinstance(x, pd.DataFrame) else x.assign(z=x["a"] + 1)[x["a"] > 1][["a", "b"]], tier=2, tags=("nested",))
# column labels that look like the placeholder keys of fused groups ("_0", "_1"): string arguments of a task that equal
# a key of the graph are substituted by the scheduler
op("ph_names", "df", lambda x: (lambda y: y.assign(r=(y["_0"] + 1) * y["_1"].sum())[["_0", "r"]])(x.rename(columns={"a": "_0", "b": "_1"})), tier=2, tags=("nested",))
op("ph_names2", "df", lambda x: (lambda y: (y["_1"] + y["_0"].sum()) * y["_0"].max())(x.rename(columns={"a": "_0", "u": "_1"})), tier=2, tags=("nested",))
# method operators carry name / axis / fill_value beside their operands (rebuilt by the projection rule)
op("add_fill", "df", lambda x: x[["a", "b", "u"]].add(x[["a", "b", "u"]].shift(1), fill_value=7), osens=True, tier=2)
op("sub_axis0", "df", lambda x: x[["a", "b", "u"]].sub(x["a"], axis=0), tier=2)
op("rsub_scalar", "df", lambda x: x[["a", "b", "u"]].rsub(10), tier=2)
# a dtype mapping whose keys are substrings of each other, a rename mapping with an absent key that targets a real label
op("astype_substr_keys", "df", lambda x: x.rename(columns={"d": "ab"}).astype({"a": "float32", "ab": "float64"}), tier=2)
op("rename_absent_key", "df", lambda x: x.rename(columns={"zz": "a", "b": "B"}), tier=2)
# elementwise operations whose operands have DIFFERENT rows (aligned on labels: result as long as the union)
op("add_filtered", "df", lambda x: x["b"][x["b"] > 2] + x["a"], lsens=True, tier=3)
op("add_filtered_frames", "df", lambda x: x[x["a"] > 2][["a", "u"]] + x[x["u"] > 4][["a", "u"]], lsens=True, tier=3)
op("twice_partitions", "any", lambda x: _concat([x.partitions[[0]], x.partitions[[1]]]), pd=None, tags=("twice", "daskonly", "psens"), tier=1)
# a filter above a join whose FIRST condition reads columns of both inputs (cannot be attributed to one side), and-ed to one-sided ones
op("merge_T2_filt_cross", "df", lambda x: (lambda m: m[(m["u"] > m["e"]) & (m["b_x"] > 0)])(x.merge(_T2(x), on="a")), order="lose", labels="lose", tier=3, tags=("dup",))
op("merge_T2_filt_cross_stacked", "df", lambda x: (lambda m: (lambda f: f[f["b_x"] > 0])(m[m["u"] > m["e"]]))(x.merge(_T2(x), on="a")), order="lose", labels="lose", tier=3, tags=("dup",))
# integer parameters that equal the boolean default of the same parameter (split_out=1 vs True)
op("dropdup_so1", "any", lambda x: x.drop_duplicates(split_out=1) if not isinstance(x, (pd.DataFrame, pd.Series)) else x.drop_duplicates(), order="lose", osens=True, tier=3)
op("unique_so1", "s", lambda x: x.unique(split_out=1) if not isinstance(x, pd.Series) else pd.Series(x.unique(), name=x.name), order="lose", labels="lose", tier=3)
# a row slice that covers whole partitions in the middle, with a column indexer that is a permutation of all columns
op("loc_rows_cols_perm", "df", lambda x: x[["a", "b", "u"]].loc[1:10, ["u", "a", "b"]], lsens=True, osens=True, tier=3)


# --------------------------------------------------------------------------
# tier 3 (second block): expression classes with rewrite / lowering rules of their own that nothing above constructs
# (read off the rule-coverage report of C01: AssignAlign, UFuncAlign, ExplodeFrame, GroupByBFill/FFill/Shift, Resample*,
# RollingAgg, Unaryop, SemiMerge, BroadcastJoin, JoinRecursive, MergeAsof, RepartitionFreq, CustomReduction, GetCategories,
# Describe*, MapOverlapAlign, ToTimestamp ...)
# --------------------------------------------------------------------------
def _other_layout(x, cols):
    """The base table T in another partitioning (2 partitions): operands that need alignment."""
    from mc import tables

    if isinstance(x, (pd.DataFrame, pd.Series)):
        return tables.dask_dtypes(tables.T)[cols]
    return tables.source("T:2")[cols]


def _merge_asof(x):
    from mc import tables

    if isinstance(x, pd.DataFrame):
        return pd.merge_asof(x.sort_values("u", kind="stable"), tables.T2.sort_values("e")[["e", "b"]], left_on="u", right_on="e", suffixes=("", "_r"))
    import dask_expr as dx

    return dx.merge_asof(x.sort_values("u"), tables.source("T2:2").sort_values("e")[["e", "b"]], left_on="u", right_on="e", suffixes=("", "_r"))


def _red_chunk(s):
    return s.sum()


def _red_agg(s):
    return s.sum()


def _custom_reduction(x):
    if isinstance(x, pd.DataFrame):
        return x["u"].sum()
    return x["u"].reduction(_red_chunk, aggregate=_red_agg, meta=("u", "int64"))


def _categorize(x):
    if isinstance(x, pd.DataFrame):
        return x.astype({"c": "category"})
    return x.categorize(columns=["c"])


def _ufunc_align(x):
    return np.add(x["a"], _other_layout(x, "u"))


op("neg", "any", lambda x: -_num(x), tier=3)
op("filt_invert", "df", lambda x: x[~(x["a"] > 2)], tier=3)
op("assign_align", "df", lambda x: x.assign(z=_other_layout(x, "b")), lsens=True, tier=3)
op("ufunc_align", "df", _ufunc_align, lsens=True, tier=3)
op("explode_frame", "df", lambda x: x.explode("c"), tier=3, tags=("dup",))
op("gb_a_ffill", "df", lambda x: x.groupby("a")["b"].ffill(), osens=True, tier=3, tags=("order_through_shuffle",))
op("gb_a_bfill", "df", lambda x: x.groupby("a")[["b", "u"]].bfill(), osens=True, tier=3, tags=("order_through_shuffle",))
op("gb_a_shift", "df", lambda x: x.groupby("a")["u"].shift(1), osens=True, tier=3, tags=("order_through_shuffle",))
op("gb_a_cumcount", "df", lambda x: x.groupby("a")["b"].cumcount(), osens=True, tier=3)
op("gb_a_std", "df", lambda x: x.groupby("a")["b"].std(), order="lose", labels="new", tier=3)
op("gb_a_count_min", "df", lambda x: x.groupby("a").agg({"b": ["count", "min"], "u": "max"}), order="lose", labels="new", tier=3)
op("resample_sum", "df", lambda x: _num(x).resample("2D").sum(), order="sorted", labels="new", tier=3)
op("resample_agg", "df", lambda x: _num(x).resample("3D").agg("max"), order="sorted", labels="new", tier=3)
op("resample_count_s", "df", lambda x: x["b"].resample("2D").count(), order="sorted", labels="new", tier=3)
op("rolling_agg", "any", lambda x: _num(x).rolling(2).agg("sum"), osens=True, tier=3)
op("rolling3_mean_mp1", "any", lambda x: _num(x).rolling(3, min_periods=1).mean(), osens=True, tier=3)
op("merge_T2_semi", "df", lambda x: x.merge(_T2(x), on="a", how="leftsemi"), pd=lambda x: x[x["a"].isin(_T2(x)["a"])], order="lose", labels="lose", tier=3)
op("merge_T2_bcast", "df", lambda x: x.merge(_T2(x), on="a", how="inner", broadcast=True), pd=lambda x: x.merge(_T2(x), on="a"), order="lose", labels="lose", tier=3, tags=("dup",))
op("merge_T2_left_bcast", "df", lambda x: x.merge(_T2(x), on="a", how="left", broadcast=True), pd=lambda x: x.merge(_T2(x), on="a", how="left"), order="lose", labels="lose", tier=3, tags=("dup",))
op("merge_left_index", "df", lambda x: x.merge(_T2(x).set_index("a") if not isinstance(x, pd.DataFrame) else _T2(x).set_index("a"), left_on="a", right_index=True, how="left"), order="lose", labels="lose", tier=3, tags=("dup",))
op("join_multi", "df", lambda x: x[["a"]].join([x[["b"]], x[["u"]]]), lsens=True, tier=3)
op("merge_asof", "df", _merge_asof, order="lose", labels="lose", tier=3)
op("repart_freq", "any", lambda x: x.repartition(freq="3D"), pd=ident, tier=3)
op("custom_reduction", "df", _custom_reduction, tier=3)
op("categorize", "df", _categorize, tier=3)
op("describe_str", "df", lambda x: x[["c"]].describe(), approx=True, tier=3)
op("median_approx", "df", lambda x: x["b"].median_approximate() if not isinstance(x, pd.DataFrame) else x["b"].median(), approx=True, tier=3)
op("s_map_fn", "df", lambda x: x["a"].map(_map_fn), tier=3)
op("index_plus", "any", lambda x: (x.index + 100).to_series(), lsens=True, tier=3)
op("s_add_prefix", "df", lambda x: x["b"].add_prefix("r"), lsens=True, tier=3)
op("index_map", "any", lambda x: x.index.map(_map_fn), lsens=True, tier=3)
op("rename_index_sorted", "df", lambda x: x["b"].rename(index=_map_fn, sorted_index=True) if not isinstance(x, pd.DataFrame) else x["b"].rename(index=_map_fn), lsens=True, tier=3)
op("std_b", "df", lambda x: x["b"].std(), tier=3)
op("sem_skew", "df", lambda x: x[["a", "b", "u"]].sem(), order="sorted", labels="new", tier=3)
op("idxmin_frame", "df", lambda x: x[["a", "b", "u"]].idxmin(), order="sorted", labels="new", lsens=True, osens=True, tier=3)
op("nunique_frame", "df", lambda x: x[["a", "d"]].nunique(), order="sorted", labels="new", tier=3)
op("isin_frame", "df", lambda x: x[["a", "d"]].isin([1, 2]), tier=3)
op("where_other", "df", lambda x: x[["a", "u"]].where(x["a"] > 2, x[["a", "u"]] * 10), tier=3)
op("mask_frame_other", "df", lambda x: x[["a", "b"]].mask(x["b"].isna(), -1), tier=3)
op("fillna_series", "df", lambda x: x["b"].fillna(x["a"]), tier=3)
op("bfill_limit", "any", lambda x: x.bfill(limit=1), osens=True, tier=3)
op("shift_neg2", "any", lambda x: x.shift(-2), osens=True, tier=3)
op("diff_neg1", "any", lambda x: _num(x).diff(-1), osens=True, tier=3)
op("cumprod_min", "df", lambda x: x["a"].cumprod() - x["u"].cummin(), osens=True, tier=3)
op("drop_dup_keep_last", "df", lambda x: x.drop_duplicates(subset=["a"], keep="last"), order="lose", labels="lose", osens=True, tier=3)
op("value_counts_sort_false", "s", lambda x: x.value_counts(sort=False), order="lose", labels="new", tier=3)
op("nlargest_s_first", "df", lambda x: x["u"].nlargest(3), order="sorted", tier=3, tags=("by_u",))
op("assign_two", "df", lambda x: x.assign(p=x["a"] + x["u"], q=x["b"] * 2)[["q", "p", "a"]], tier=3)
op("drop_then_sel", "df", lambda x: x.drop(columns=["d", "c"])[["u", "a"]], tier=3)
op("setitem_like", "df", lambda x: x.assign(a=x["u"], u=x["a"]), tier=3)
op("sort_a_desc_u", "df", lambda x: x.sort_values(["a", "u"], ascending=[False, True]), order="sorted", tier=3, tags=("by_u",))
op("sort_b_nafirst", "df", lambda x: x.sort_values(["b", "u"], na_position="first"), order="sorted", tier=3, tags=("by_u",))
op("set_index_u_drop_false", "df", lambda x: x.set_index("u", drop=False), pd=lambda x: x.set_index("u", drop=False).sort_index(), order="sorted", labels="new", tier=3, tags=("by_u",))
op("set_index_sorted_flag", "df", lambda x: x.sort_values("u").set_index("u", sorted=True) if not isinstance(x, pd.DataFrame) else x.sort_values("u").set_index("u"), order="sorted", labels="new", tier=3, tags=("by_u", "user_div"))
op("head2_np2", "any", lambda x: _head(x, 2, npartitions=2), pd=None, osens=True, tags=("psens", "daskonly"), tier=3)
op("part_slice", "any", lambda x: x.partitions[1:], pd=None, tags=("psens", "daskonly"), tier=3)
op("to_frame_named", "s", lambda x: x.to_frame(name="nm"), tier=3)
op("s_between_filter", "s", lambda x: x[x.between(1, 4)], tier=3)
op("s_isin_idx", "df", lambda x: x[x.index.isin([1, 3, 5, 7])] if isinstance(x, pd.DataFrame) else x[x.index.to_series().isin([1, 3, 5, 7])], lsens=True, tier=3)


# producers whose projection rules were reported broken by seed-writing sub-agents on the unchanged tree (wave 3): the
# selection on top comes from C04's selection enumeration and from the (=3, core0) pair stage of the E1 checks
def _num3(x):
    return x[["a", "u", "d"]]


op("where_frame_cond", "df", lambda x: _num3(x).where(_num3(x) > 1), tier=3)
op("add_suffix_empty", "df", lambda x: x.add_suffix(""), tier=3)
op("gb_d_cov", "df", lambda x: x.groupby("d")[["a", "b", "u"]].cov(), order="lose", labels="new", tier=3)
op("concat_ax1_T2_outer", "df", lambda x: _concat([x[["a", "u"]], _T2(x)[["e"]]], axis=1), lsens=True, tier=3)
op("concat_ax1_T2_inner", "df", lambda x: _concat([x[["a", "u"]], _T2(x)[["e"]]], axis=1, join="inner"), lsens=True, tier=3)
op("add_frames_unaligned", "df", lambda x: x[["a", "u"]] + _other_layout(x, ["a", "b"]), lsens=True, tier=3)
op("add_diffcols", "df", lambda x: x[["a", "b"]] + x[["b", "u"]], tier=3)
op("clip_frame", "df", lambda x: x[["a", "b", "u"]].clip(lower=1), tier=3)
op("sum_frame3", "df", lambda x: x[["a", "b", "u"]].sum(), order="sorted", labels="new", tier=3)
op("gb_d_rolling", "df", lambda x: x.groupby("d")[["a", "u"]].rolling(2).sum(), order="lose", labels="lose", osens=True, tier=3)
op("mode_frame", "df", lambda x: x[["a", "d"]].mode(), labels="lose", tier=3)
op("merge_lr_on_collide", "df", lambda x: x[["a", "u"]].merge(_T2(x), left_on="a", right_on="e"), order="lose", labels="lose", tier=3, tags=("dup",))
op("sum_sel_a", "df", lambda x: x[["a", "b", "u"]].sum()[["a"]], order="sorted", labels="new", tier=3)
op("clip_index_sel", "df", lambda x: x[["a", "b", "u"]].clip(lower=1)[pd.Index(["a", "b"])], tier=3)


def _map_fn(v):
    return v * 2 + 1


def _assign_zz(x):
    y = x.assign(z=x["a"] + 1)
    return y.assign(w=y["z"] * 2)


def _isframe(x):
    return getattr(x, "ndim", None) == 2 or type(x).__name__ == "DataFrame"


def _hasstr(x):
    try:
        cols = list(x.columns)
        return "c" in cols
    except Exception:
        return False


def _num(x):
    if _isframe(x):
        cols = [c for c in x.columns if c in ("a", "b", "u", "d", "z", "A", "B", "e")]
        if len(cols) != len(x.columns):
            return x[cols]
    return x


def _len(x):
    import dask_expr as dx

    # lazy len: the Len expression, as used by len(x)
    from dask_expr._reductions import Len
    from dask_expr._collection import new_collection

    return new_collection(Len(x.expr))


def _head(x, n, npartitions=1):
    return x.head(n, npartitions=npartitions, compute=False)


def _tail(x, n):
    return x.tail(n, compute=False)


def _concat(objs, **kw):
    if isinstance(objs[0], (pd.DataFrame, pd.Series)):
        return pd.concat(objs, **kw)
    import dask_expr as dx

    return dx.concat(objs, **kw)


def _mp_fn(df):
    return df.assign(mp=df["a"] * 10)


def _mo_fn(df):
    return df.rolling(2).sum()


def _gb_apply_fn(g):
    return g - g.mean()


def _pivot(x):
    if isinstance(x, pd.DataFrame):
        y = x.astype({"d": pd.CategoricalDtype([0, 1])})
        return pd.pivot_table(y, index="a", columns="d", values="b", aggfunc="sum", observed=False)
    import dask_expr as dx

    y = x.astype({"d": pd.CategoricalDtype([0, 1])})
    return dx.pivot_table(y, index="a", columns="d", values="b", aggfunc="sum")


def _dummies(x):
    if isinstance(x, pd.DataFrame):
        y = x.astype({"d": pd.CategoricalDtype([0, 1])})
        return pd.get_dummies(y[["a", "d"]])
    import dask_expr as dx
    from dask_expr._dummies import get_dummies

    y = x.astype({"d": pd.CategoricalDtype([0, 1])})
    return get_dummies(y[["a", "d"]])


# --------------------------------------------------------------------------
# state typing
# --------------------------------------------------------------------------


def kind_of(x):
    """df | s | idx | sc for dask collections and pandas objects."""
    n = type(x).__name__
    if n == "DataFrame":
        return "df"
    if n == "Series":
        return "s"
    if n in ("Index", "RangeIndex", "MultiIndex", "DatetimeIndex") or isinstance(x, pd.Index):
        return "idx"
    return "sc"


def applicable(op_, kind):
    if kind == "sc":
        return False
    if op_.inp == "any":
        return kind in ("df", "s") or (kind == "idx" and op_.name in IDX_OK)
    if op_.inp == "df":
        return kind == "df"
    if op_.inp == "s":
        return kind in ("s",) or (kind == "idx" and op_.name in IDX_OK)
    return False


# ops that neither change the values of column u nor duplicate rows
KEEPS_U = {
    "proj_abu", "filt_a_gt2", "filt_b_le2", "filt_and", "filt_or_common", "filt_vs_mean", "filt_idx", "filt_none",
    "assign_z", "assign_over_a", "assign_zz", "rename_ab", "rename_swap", "reset_index", "reset_index_drop",
    "set_index_a", "set_index_d_np2", "sort_u", "sort_a", "sort_b_desc", "sort_a_u", "head3", "head7_all", "tail3",
    "part1", "part_20", "repart2", "repart5", "shuffle_a", "shuffle_a_np2", "astype_f", "dropna_b", "dropna",
    "drop_c", "isin_a", "isin_c", "loc_slice", "loc_bool", "clear_div", "enforce_div", "str_upper", "astype_cat",
    "query", "eval", "map_partitions", "dropdup_a", "dropdup", "nlargest2_u", "nsmallest3_b", "concat_filt", "sample",
}

IDX_OK = {"count", "min", "max", "nunique", "unique", "head3", "part1", "repart2", "len", "size", "map_partitions_len"}


@dataclass
class Typing:
    ordered: bool = True
    labelled: bool = True
    defined: bool = True
    approx: bool = False
    u_unique: bool = True  # column u still a tie-free sort key

    def after(self, op_: Op):
        t = Typing(self.ordered, self.labelled, self.defined, self.approx or op_.approx, self.u_unique)
        if op_.name not in KEEPS_U:
            t.u_unique = False
        if op_.osens and not self.ordered:
            t.defined = False
        if op_.lsens and not self.labelled:
            t.defined = False
        if op_.order == "sorted" and ("by_u" not in op_.tags or t.u_unique):
            t.ordered = True
        elif op_.order == "sorted":
            t.ordered = False
        elif op_.order == "lose":
            t.ordered = False
        if op_.labels == "new":
            t.labelled = True
        elif op_.labels == "lose":
            t.labelled = False
        return t


def typing_of(opnames):
    t = Typing()
    for n in opnames:
        t = t.after(OPS[n])
    return t


def build(src, opnames, pandas=False, method="tasks"):
    """Apply the op list to a source collection (or pandas frame).

    method: the configured shuffle method while the program is BUILT.  Some operations resolve the method when they are built
    (``shuffle`` stores it as an operand), so a check that wants the disk plans has to build under that configuration too."""
    x = src
    if pandas:
        for n in opnames:
            x = OPS[n].apply(x, pandas=True)
        return x
    # operations tagged "nested" optimise a sub-plan while the program is BUILT: shuffles inside it must not be lowered to the
    # default disk (partd) shuffle, whose row order is run-dependent (KF-disk-shuffle-row-order), or the same collection would
    # compute different rows on every execution
    import dask

    for n in opnames:
        with dask.config.set({"dataframe.shuffle.method": "tasks" if "nested" in OPS[n].tags else method}):
            x = OPS[n].apply(x, pandas=False)
    return x


def alphabet(tier):
    return [o for o in OPS.values() if o.tier <= tier]


# the handful of operations every other operation is paired with when the full pair space is too large: one of each kind of
# consumer / producer the rewrite rules distinguish (projection, filter, assign, rename, index reset, row / partition selection,
# repartition, reduction, length, index, sort / set_index, join, groupby)
CORE0 = ("proj_ab", "col_b", "filt_a_gt2", "assign_z", "rename_ab", "reset_index", "head3", "part1", "repart2", "sum", "len",
         "index", "set_index_u", "merge_T2_inner", "gb_a_agg", "tail3")


def alphabet_spec(spec):
    """int n: every operation of tier <= n; "=n": exactly tier n; "core0": the CORE0 subset."""
    if isinstance(spec, int):
        return alphabet(spec)
    if spec == "core0":
        return [OPS[n] for n in CORE0]
    if isinstance(spec, str) and spec.startswith("="):
        t = int(spec[1:])
        return [o for o in OPS.values() if o.tier == t]
    raise ValueError(spec)
