"""Execution of real plans and canonical comparison of results.

All executions go through the synchronous scheduler on the dict returned by
``__dask_graph__`` of the *real* expression: nothing is modelled here.
"""
import math
import signal
import traceback
from contextlib import contextmanager

from mc.env import REPO, np, pd, dask  # noqa: F401

from dask.local import get_sync
from dask.dataframe.core import _concat

import dask_expr
from dask_expr._expr import Expr, optimize_until

STAGES = [
    "simplified-logical",
    "tuned-logical",
    "physical",
    "simplified-physical",
    "fused",
]


class CaseTimeout(BaseException):
    pass


@contextmanager
def time_limit(seconds):
    def handler(signum, frame):
        raise CaseTimeout(f"timeout after {seconds}s")

    old = signal.signal(signal.SIGALRM, handler)
    signal.setitimer(signal.ITIMER_REAL, seconds)
    try:
        yield
    finally:
        signal.setitimer(signal.ITIMER_REAL, 0)
        signal.signal(signal.SIGALRM, old)


def expr_of(x):
    return x.expr if hasattr(x, "expr") else x


def lowered(expr):
    return expr_of(expr).lower_completely()


def run_parts(expr, lower=True):
    """Execute a plan and return the list of its output partitions."""
    expr = expr_of(expr)
    if lower:
        expr = expr.lower_completely()
    graph = expr.__dask_graph__()
    keys = expr.__dask_keys__()
    return simple_get(graph, keys)


def simple_get(dsk, keys):
    """Sequential executor: the real task tuples run by dask.core._execute_task
    in dask's own topological order (no thread pool, no queue)."""
    from dask.core import _execute_task, toposort

    cache = {}
    for k in toposort(dsk):
        cache[k] = _execute_task(dsk[k], cache)
    return [cache[k] for k in keys]


def is_frame_like(o):
    return isinstance(o, (pd.DataFrame, pd.Series, pd.Index))


def assemble(parts, expr=None):
    """Concatenate partitions the way compute() does (the collection's own
    __dask_postcompute__ finaliser)."""
    if expr is not None:
        from dask_expr._collection import new_collection

        finalize, args = new_collection(expr).__dask_postcompute__()
        return finalize(parts, *args)
    if not parts:
        return None
    if len(parts) == 1 and not is_frame_like(parts[0]):
        return parts[0]
    return _concat(parts)


def run(expr, lower=True):
    expr = expr_of(expr)
    if lower:
        expr = expr.lower_completely()
    return assemble(run_parts(expr, lower=False), expr)


# ----------------------------------------------------------------------------
# canonical form of a result
# ----------------------------------------------------------------------------

NULL = "<NULL>"


def _is_null(v):
    try:
        if v is None or v is pd.NaT or v is pd.NA:
            return True
        if isinstance(v, float) and math.isnan(v):
            return True
        if isinstance(v, (np.floating,)) and np.isnan(v):
            return True
        if isinstance(v, (np.datetime64, np.timedelta64)) and np.isnat(v):
            return True
    except Exception:
        pass
    return False


def norm_value(v):
    """Map a cell to a hashable, order-comparable canonical token."""
    if _is_null(v):
        return ("0", NULL)
    if isinstance(v, (bool, np.bool_)):
        return ("b", bool(v))
    if isinstance(v, (int, np.integer)):
        return ("n", float(v))
    if isinstance(v, (float, np.floating)):
        f = float(v)
        if math.isinf(f):
            return ("n", f)
        # 9 significant digits; values within 1e-9 of zero are zero (cancellation noise of
        # sums taken in a different association order)
        if abs(f) < 1e-9:
            return ("n", 0.0)
        return ("n", float(f"{f:.9g}"))
    if isinstance(v, (pd.Timestamp, np.datetime64)):
        return ("t", str(pd.Timestamp(v)))
    if isinstance(v, (pd.Timedelta, np.timedelta64)):
        return ("d", str(pd.Timedelta(v)))
    if isinstance(v, str):
        return ("s", v)
    if isinstance(v, (tuple, list)):
        return ("l", tuple(norm_value(x) for x in v))
    if isinstance(v, (set, frozenset)):
        return ("l", tuple(sorted(norm_value(x) for x in v)))
    if isinstance(v, np.ndarray):
        return ("l", tuple(norm_value(x) for x in v.tolist()))
    if isinstance(v, pd.Interval):
        return ("i", str(v))
    if isinstance(v, pd.Period):
        return ("p", str(v))
    return ("o", repr(v))


def dtype_kind(dt):
    """Coarse dtype kind used for schema comparison."""
    try:
        if isinstance(dt, pd.CategoricalDtype):
            return "cat"
        if pd.api.types.is_bool_dtype(dt):
            return "bool"
        if pd.api.types.is_integer_dtype(dt):
            return "int"
        if pd.api.types.is_float_dtype(dt):
            return "float"
        if pd.api.types.is_datetime64_any_dtype(dt):
            return "datetime"
        if pd.api.types.is_timedelta64_dtype(dt):
            return "timedelta"
        if pd.api.types.is_string_dtype(dt) and not pd.api.types.is_object_dtype(dt):
            return "str"
        if pd.api.types.is_object_dtype(dt):
            return "object"
        if pd.api.types.is_complex_dtype(dt):
            return "complex"
    except Exception:
        pass
    return str(dt)


def kinds_compatible(a, b):
    """Dtype kinds equal up to pandas' own promotion on missing values."""
    if a == b:
        return True
    loose = [{"int", "float"}, {"bool", "object"}, {"bool", "float"}, {"str", "object"}, {"int", "object"}]
    return {a, b} in loose


def _label(v):
    return norm_value(v) if not isinstance(v, tuple) else ("l", tuple(norm_value(x) for x in v))


def canon(obj, labelled=True):
    """Canonical description: (container, columns, names, kinds, rows).

    rows is a list of tuples of canonical cells; when ``labelled`` the index
    values are the leading cells of each row.
    """
    if isinstance(obj, pd.DataFrame):
        cols = [_label(c) for c in obj.columns]
        kinds = [dtype_kind(dt) for dt in obj.dtypes]
        idx_names = [_label(n) for n in obj.index.names]
        data = [obj.iloc[:, i].tolist() for i in range(obj.shape[1])]
        n = len(obj)
        idx = obj.index
        container = "frame"
    elif isinstance(obj, pd.Series):
        cols = [_label(obj.name)]
        kinds = [dtype_kind(obj.dtype)]
        idx_names = [_label(n) for n in obj.index.names]
        data = [obj.tolist()]
        n = len(obj)
        idx = obj.index
        container = "series"
    elif isinstance(obj, pd.Index):
        cols = [_label(n) for n in obj.names]
        kinds = [dtype_kind(obj.dtype)]
        idx_names = []
        if isinstance(obj, pd.MultiIndex):
            data = [list(obj.get_level_values(i)) for i in range(obj.nlevels)]
            kinds = [dtype_kind(obj.get_level_values(i).dtype) for i in range(obj.nlevels)]
        else:
            data = [obj.tolist()]
        n = len(obj)
        idx = None
        container = "index"
    else:
        return {
            "container": "scalar",
            "columns": [],
            "index_names": [],
            "kinds": [type(obj).__name__],
            "rows": [(norm_value(obj),)],
        }
    rows = []
    if idx is not None and labelled:
        if isinstance(idx, pd.MultiIndex):
            icols = [list(idx.get_level_values(i)) for i in range(idx.nlevels)]
        else:
            icols = [idx.tolist()]
    else:
        icols = []
    allcols = icols + data
    normed = [[norm_value(v) for v in col] for col in allcols]
    for r in range(n):
        rows.append(tuple(col[r] for col in normed))
    return {
        "container": container,
        "columns": cols,
        "index_names": idx_names if labelled else [],
        "kinds": kinds,
        "rows": rows,
    }


def compare(a, b, ordered=True, labelled=True, check_kinds=True, check_names=True):
    """Return None when a and b are equal under the comparator, else a reason."""
    ca, cb = canon(a, labelled), canon(b, labelled)
    if ca["container"] != cb["container"]:
        return f"container {ca['container']} != {cb['container']}"
    if ca["container"] == "scalar":
        if ca["rows"] != cb["rows"]:
            return f"scalar {ca['rows'][0][0]} != {cb['rows'][0][0]}"
        return None
    if check_names and ca["columns"] != cb["columns"]:
        return f"columns {ca['columns']} != {cb['columns']}"
    if len(ca["columns"]) != len(cb["columns"]):
        return f"ncolumns {len(ca['columns'])} != {len(cb['columns'])}"
    if check_names and ca["index_names"] != cb["index_names"]:
        return f"index names {ca['index_names']} != {cb['index_names']}"
    if check_kinds:
        for ka, kb, c in zip(ca["kinds"], cb["kinds"], ca["columns"]):
            if not kinds_compatible(ka, kb):
                return f"dtype kind of {c}: {ka} != {kb}"
    ra, rb = ca["rows"], cb["rows"]
    if len(ra) != len(rb):
        return f"nrows {len(ra)} != {len(rb)}"
    if not ordered:
        ra, rb = sorted(ra), sorted(rb)
    if ra != rb:
        for i, (x, y) in enumerate(zip(ra, rb)):
            if x != y:
                return f"row {i}{'' if ordered else ' (sorted)'}: {x} != {y}"
    return None


def digest(obj, ordered=True, labelled=True):
    import hashlib

    c = canon(obj, labelled)
    rows = c["rows"] if ordered else sorted(c["rows"])
    return hashlib.sha1(
        repr((c["container"], c["columns"], c["index_names"], rows)).encode()
    ).hexdigest()[:16]


def exc_site(exc):
    """Innermost frame inside the dask_expr tree under test: 'file:function'."""
    tb = traceback.extract_tb(exc.__traceback__)
    site = None
    for fr in tb:
        if "/dask_expr/" in fr.filename and "/tests/" not in fr.filename:
            site = f"{fr.filename.split('/dask_expr/')[-1]}:{fr.name}"
    return site or "outside"


def exc_kind(exc):
    return f"{type(exc).__name__}@{exc_site(exc)}"


def short(exc, n=200):
    s = f"{type(exc).__name__}: {exc}"
    return s.replace("\n", " ")[:n]
