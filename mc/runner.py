"""Parallel case evaluation, violation minimisation/classification, evidence.

A *case* is a JSON-able dict.  A check module supplies

    evaluate(case) -> {"status": ok|viol|inapplicable|rejected,
                       "viols": [{"kind":..., "detail":...}], "info": {...}}
    shrink(case)   -> iterable of strictly smaller cases          (optional)
    case_key(case) -> canonical string of the case                 (optional)

Cases are evaluated in children forked from the (pristine) parent; every
child handles one chunk and exits, so planner state never leaks between
chunks, and every failing case is re-run in a fresh child before it is
believed.
"""
import hashlib
import json
import multiprocessing as mp
import os
import re
import sys
import time
import traceback

from mc import env

_FUNC = None
_ARGS = None


def _chunk_runner(chunk):
    import warnings

    warnings.filterwarnings("ignore")
    if not os.environ.get("VERIF_STDERR"):
        try:
            os.dup2(os.open(os.devnull, os.O_WRONLY), 2)
        except OSError:
            pass
    try:
        import numpy as np

        np.seterr(all="ignore")
    except Exception:  # noqa: BLE001
        pass
    out = []
    for item in chunk:
        try:
            out.append((item, _FUNC(item, *(_ARGS or ()))))
        except BaseException as e:  # noqa: BLE001
            out.append(
                (
                    item,
                    {
                        "status": "harness_error",
                        "viols": [],
                        "info": {"error": f"{type(e).__name__}: {e}", "tb": traceback.format_exc()[-1500:]},
                    },
                )
            )
    return out


def pmap(func, items, args=(), chunk=None, nproc=None, fresh=True):
    """Evaluate func(item, *args) for all items in forked children; returns [(item, result)].

    fresh=True : every chunk runs in a newly forked child of the (pristine) parent.
    fresh=False: long-lived workers (forking is expensive in this sandbox: copy-on-write
                 faults serialise); used where the evaluated function resets and verifies
                 the planner state itself (mc/pristine.py).
    """
    global _FUNC, _ARGS
    items = list(items)
    if not items:
        return []
    nproc = nproc or env.NPROC
    if chunk is None:
        chunk = max(1, min(48, len(items) // (nproc * 4) or 1))
    chunks = [items[i : i + chunk] for i in range(0, len(items), chunk)]
    _FUNC, _ARGS = func, args
    results = []
    ctx = mp.get_context("fork")
    with ctx.Pool(min(nproc, len(chunks)), maxtasksperchild=1 if fresh else None) as pool:
        for res in pool.imap(_chunk_runner, chunks):
            results.extend(res)
    return results


def fork_call(func, *args):
    """Run func(*args) in a freshly forked child of the current process and return its result
    (usable inside pool workers, which may not create pools themselves)."""
    import pickle

    r, w = os.pipe()
    pid = os.fork()
    if pid == 0:
        code = 0
        try:
            os.close(r)
            try:
                out = ("ok", func(*args))
            except BaseException as e:  # noqa: BLE001
                out = ("err", f"{type(e).__name__}: {e}\n{traceback.format_exc()[-1500:]}")
            with os.fdopen(w, "wb") as f:
                pickle.dump(out, f)
        except BaseException:  # noqa: BLE001
            code = 1
        finally:
            os._exit(code)
    os.close(w)
    with os.fdopen(r, "rb") as f:
        data = f.read()
    os.waitpid(pid, 0)
    kind, val = pickle.loads(data)
    if kind == "err":
        raise RuntimeError("fork_call failed: " + val)
    return val


def default_key(case):
    return json.dumps(case, sort_keys=True, default=str)


# ----------------------------------------------------------------------------
# known findings
# ----------------------------------------------------------------------------


def load_findings(prop):
    path = os.path.join(env.VERIF, "known_findings.json")
    if not os.path.exists(path):
        return []
    with open(path) as f:
        data = json.load(f)
    return [e for e in data.get("findings", []) if e.get("property") == prop and e.get("status") == "open"]


def match_finding(findings, kind, key):
    for e in findings:
        if re.fullmatch(e["kind_re"], kind) and re.fullmatch(e["witness_re"], key):
            return e
    return None


# ----------------------------------------------------------------------------
# context object handed to checks
# ----------------------------------------------------------------------------


class Ctx:
    def __init__(self, prop, tier, module):
        self.prop = prop
        self.tier = tier
        self.module = module
        self.t0 = time.time()
        self.seed = env.SEED
        self.evaluations = 0
        self.states = 0
        self.transitions = 0
        self.status_counts = {}
        self.failures = []  # (case, viol)
        self.samples = []
        self.cov = {}
        self.assumptions = []
        self.exhaustive = True
        self.caps = []
        self.nontrivial = 0
        self.rule = ""
        self.harness_errors = []
        self.budget_s = float(os.environ.get("VERIF_BUDGET_S", "0") or 0) or (
            3000 if tier == "quick" else 14400
        )

    # -- evaluation -----------------------------------------------------
    def elapsed(self):
        return time.time() - self.t0

    def out_of_time(self):
        return self.elapsed() > self.budget_s

    def map(self, evaluate, cases, args=(), chunk=None, fresh=True):
        res = pmap(evaluate, cases, args=args, chunk=chunk, fresh=fresh)
        for case, r in res:
            self.evaluations += 1
            st = r.get("status", "?")
            self.status_counts[st] = self.status_counts.get(st, 0) + 1
            if st == "harness_error":
                self.harness_errors.append((case, r["info"]))
            for v in r.get("viols", []):
                self.failures.append((case, v))
        return res

    def sample(self, s, cap=8):
        if len(self.samples) < cap:
            self.samples.append(s)

    def cap_hit(self, what):
        self.exhaustive = False
        self.caps.append(what)

    # -- finishing ------------------------------------------------------
    def finish(self, evaluate, shrink=None, case_key=default_key, args=()):
        """Minimise + classify failures, print VIOLATION / KNOWN-FINDING lines,
        write evidence, return the exit code."""
        findings = load_findings(self.prop)
        groups = {}
        unreproduced = []
        if self.failures:
            todo = []
            seen = set()
            for case, v in self.failures:
                k = (case_key(case), v["kind"])
                if k in seen:
                    continue
                seen.add(k)
                todo.append((case, v))
            # shortest first, bounded per kind
            todo.sort(key=lambda cv: (len(case_key(cv[0])), case_key(cv[0])))
            per_kind = {}
            picked = []
            CAP = int(os.environ.get("VERIF_MINIMISE_CAP", "400"))
            skipped = 0
            for case, v in todo:
                n = per_kind.get(v["kind"], 0)
                if n >= CAP:
                    skipped += 1
                    continue
                per_kind[v["kind"]] = n + 1
                picked.append((case, v))
            if skipped:
                self.cap_hit(f"minimisation cap: {skipped} failing cases of already-reported kinds not minimised")
            res = pmap(_minimise, picked, args=(evaluate, shrink, case_key, args), chunk=4)
            for (case, v), m in res:
                if m.get("status") == "harness_error":
                    self.harness_errors.append((case, m["info"]))
                    continue
                if not m["reproduced"]:
                    unreproduced.append({"case": case, "kind": v["kind"], "detail": v.get("detail")})
                    continue
                key = (m["kind"], case_key(m["case"]))
                g = groups.setdefault(key, {"case": m["case"], "kind": m["kind"], "detail": m["detail"], "n": 0, "from": case})
                g["n"] += 1
        # A witness that matches no recorded finding is minimised once more from where the first minimisation stopped (fresh
        # process) before it is reported: a shrink step lost to a transient failure (time limit under heavy machine load) leaves a
        # non-minimal witness, and findings are recorded by their minimal witness.  A violation that is not a recorded finding
        # stays one - its witness can only get smaller.
        if findings and groups:
            retry = [g for (kind, key), g in sorted(groups.items()) if match_finding(findings, kind, key) is None]
            if retry:
                res = pmap(_minimise, [(g["case"], {"kind": g["kind"], "detail": g["detail"]}) for g in retry],
                           args=(evaluate, shrink, case_key, args), chunk=2)
                for g, (_, m) in zip(retry, res):
                    if m.get("reproduced") and case_key(m["case"]) != case_key(g["case"]):
                        old = (g["kind"], case_key(g["case"]))
                        new = (m["kind"], case_key(m["case"]))
                        groups.pop(old, None)
                        if new in groups:
                            groups[new]["n"] += g["n"]
                        else:
                            g["case"], g["detail"] = m["case"], m["detail"]
                            groups[new] = g
        nviol = 0
        known = 0
        known_hits = {}
        for (kind, key), g in sorted(groups.items()):
            f = match_finding(findings, kind, key)
            if f is not None:
                h = known_hits.setdefault(f["id"], {"f": f, "witnesses": [], "cases": 0})
                h["witnesses"].append(key)
                h["cases"] += g["n"]
                continue
            nviol += 1
            path = write_replay(self.prop, self.module, g, key)
            print(f"VIOLATION property={self.prop} replay={path}")
            print(f"  kind={kind} witness={key} cases={g['n']}\n  detail={g['detail']}")
        for fid, h in sorted(known_hits.items()):
            known += 1
            print(f"KNOWN-FINDING: property={self.prop} {fid}: {h['f']['summary']} [{len(h['witnesses'])} minimal witness(es), e.g. {h['witnesses'][0]}; {h['cases']} failing case(s)]")
        for u in unreproduced[:20]:
            print(f"ANOMALY (not reproduced in a fresh process, not counted): {self.prop} {case_key(u['case'])} {u['kind']}")
        for case, info in self.harness_errors[:10]:
            print(f"HARNESS-ERROR: {case_key(case)[:200]} {info.get('error')}\n{info.get('tb', '')}")
        if self.harness_errors:
            nviol_exit = 2
        else:
            nviol_exit = 1 if nviol else 0
        self.write_evidence(nviol, known, len(unreproduced))
        print(
            f"[{self.prop} {self.tier}] evaluations={self.evaluations} states={self.states} transitions={self.transitions} "
            f"nontrivial={self.nontrivial} status={self.status_counts} violations={nviol} known={known} "
            f"unreproduced={len(unreproduced)} exhaustive={self.exhaustive} wall={self.elapsed():.1f}s"
        )
        sys.stdout.flush()
        return nviol_exit

    def write_evidence(self, nviol, known, unrepro):
        cov = {
            "states": int(self.states),
            "transitions": int(self.transitions),
            "traces_validated_against_impl": int(self.evaluations),
            "evaluations": int(self.evaluations),
            "distinct_nontrivial": int(self.nontrivial),
            "rule": self.rule,
            "samples": self.samples or ["(none)"],
            "exhaustive": bool(self.exhaustive),
            "caps_hit": self.caps,
            "status_counts": self.status_counts,
            "known_findings_matched": known,
            "unreproduced_anomalies": unrepro,
            "tree": env.tree_id(),
        }
        cov.update(self.cov)
        ev = {
            "property_id": self.prop,
            "tier": self.tier,
            "seed": int(self.seed),
            "level": "model_checking",
            "coverage": cov,
            "assumptions": self.assumptions,
            "wall_s": round(self.elapsed(), 2),
            "violations": int(nviol),
        }
        d = os.environ.get("VERIF_EVIDENCE_DIR") or os.path.join(env.VERIF, "evidence")
        os.makedirs(d, exist_ok=True)
        tmp = os.path.join(d, f".{self.prop}.json.tmp")
        with open(tmp, "w") as f:
            json.dump(ev, f, indent=1, default=str)
        os.replace(tmp, os.path.join(d, f"{self.prop}.json"))


def _has_kind(r, kind):
    for v in r.get("viols", []):
        if v["kind"] == kind:
            return v
    return None


def _minimise(item, evaluate, shrink, case_key, args):
    case, v = item
    kind = v["kind"]
    # believe a failure only if it reproduces here (fresh child), twice
    r1 = evaluate(case, *args)
    r2 = evaluate(case, *args)
    v1, v2 = _has_kind(r1, kind), _has_kind(r2, kind)
    if v1 is None or v2 is None:
        return {"reproduced": False}
    detail = v1.get("detail")
    if shrink is not None:
        progress = True
        steps = 0
        while progress and steps < 200:
            progress = False
            for cand in shrink(case):
                steps += 1
                try:
                    r = evaluate(cand, *args)
                except BaseException:  # noqa: BLE001
                    continue
                vv = _has_kind(r, kind)
                if vv is not None:
                    case, detail = cand, vv.get("detail")
                    progress = True
                    break
    return {"reproduced": True, "case": case, "kind": kind, "detail": detail}


def write_replay(prop, module, g, key):
    d = os.path.join(os.environ.get("VERIF_REPLAY_DIR") or os.path.join(env.VERIF, "replays"), prop)
    os.makedirs(d, exist_ok=True)
    h = hashlib.sha1((g["kind"] + "|" + key).encode()).hexdigest()[:12]
    path = os.path.join(d, f"{h}.json")
    with open(path, "w") as f:
        json.dump(
            {
                "property": prop,
                "module": module,
                "case": g["case"],
                "kind": g["kind"],
                "detail": g["detail"],
                "witness": key,
                "first_seen_in": g.get("from"),
                "failing_cases": g["n"],
                "seed": env.SEED,
                "how": f"cd /verif && ./check {prop} --replay {path}",
            },
            f,
            indent=1,
            default=str,
        )
    return path
