"""E1: breadth-first exploration of the program space (DESIGN 1.1, §3).

A state is a program ``(source spec, [op names])``; a transition appends one
alphabet operation.  States are deduplicated by the independent structural key
of the expression they build.  Every candidate is evaluated by the check's
``evaluate`` in forked children; programs whose build is rejected, whose
reference fails or which end in a scalar are not extended.
"""
from mc import ops as O


def prog_key(case):
    k = f"{case['src']}|{','.join(case['ops'])}"
    extra = {a: b for a, b in case.items() if a not in ("src", "ops")}
    if extra:
        k += "|" + ",".join(f"{a}={extra[a]}" for a in sorted(extra))
    return k


def shrink_prog(case):
    """Smaller programs: drop one op; then simpler source layout."""
    ops = case["ops"]
    for i in range(len(ops) - 1, -1, -1):
        c = dict(case)
        c["ops"] = ops[:i] + ops[i + 1 :]
        if c["ops"]:
            yield c
    name, _, lay = case["src"].partition(":")
    for simpler in ("1", "2"):
        if lay not in ("1", "2") and lay != simpler:
            c = dict(case)
            c["src"] = f"{name}:{simpler}"
            yield c


def bfs(ctx, evaluate, sources, depth_tiers, extra=None, args=(), on_result=None, max_states=None):
    """depth_tiers: list, entry d = alphabet tier allowed for the op at depth d+1
    (every earlier op may be of any tier <= the maximum of the list up to there).

    Returns list of (case, result) for all evaluated candidates.
    """
    extra = extra or {}
    frontier = [({"src": s, "ops": [], **extra}, "df") for s in sources]
    seen = set()
    all_results = []
    for d, tier in enumerate(depth_tiers):
        cands = []
        for case, kind in frontier:
            for op_ in O.alphabet_spec(tier):
                if O.applicable(op_, kind):
                    c = dict(case)
                    c["ops"] = case["ops"] + [op_.name]
                    cands.append(c)
        if max_states and len(cands) > max_states:
            ctx.cap_hit(f"depth {d+1}: {len(cands)} candidates capped to {max_states}")
            cands = cands[:max_states]
        if ctx.out_of_time():
            ctx.cap_hit(f"time budget reached before depth {d+1} ({len(cands)} candidates not explored)")
            break
        res = ctx.map(evaluate, cands, args=args)
        ctx.transitions += len(cands)
        frontier = []
        for case, r in res:
            all_results.append((case, r))
            if on_result:
                on_result(case, r)
            info = r.get("info", {})
            if r["status"] in ("ok",) and info.get("skey") is not None:
                if info["skey"] in seen:
                    continue
                seen.add(info["skey"])
                ctx.states += 1
                if info.get("nontrivial"):
                    ctx.nontrivial += 1
                if info.get("kind") in ("df", "s", "idx"):
                    frontier.append((case, info["kind"]))
        cov = ctx.cov.setdefault("per_depth", [])
        cov.append({"depth": d + 1, "tier": tier, "candidates": len(cands), "new_states": len(frontier)})
    return all_results


def extra_stages(kind="full"):
    """Plan stages that bring the tier-3 alphabet (expression classes with rules of their own that the tier<=2 pair space
    never constructs) into a quick run without squaring it: every operation once on three tables (plain, datetime index,
    type-rich columns), and every tier-3 operation paired with the CORE0 consumers / producers in both orders."""
    import os

    depth1 = (["T:3", "Tt:3", "TX:3"], [3])
    if kind == "t3":
        return [(["T:3"], [3])]
    if kind == "full":
        # The two pair stages are built but only enabled on request: the triage of what they surface in C01 / C06 / C07 / C09 / C14
        # (several more genuine defects of the tier-3 operations under a second operation, DESIGN 0.5) was not finished, and an
        # untriaged defect would read as an alarm on the unchanged tree.
        if os.environ.get("VERIF_PAIR_STAGES"):
            return [depth1, (["T:3"], ["=3", "core0"]), (["T:3"], ["core0", "=3"])]
        # depth 1 on the primary table only: the datetime-index and type-rich tables were completed for the four "light" checks, not for
        # C01 / C06 / C07 (their last runs hit the wall-clock budget on a machine shared by four checks before reaching this stage)
        return [(["T:3"], [3])]
    return [depth1, (["T:3"], ["=3", "core0"])]
