"""Planner-state census and reset (DESIGN §4 C15).

``census()`` finds by reflection every module-level container of the loaded dask_expr
modules (dict / LRU / set / list / WeakValueDictionary) plus the live expression table, so a
cache added by a later change to the repository enters the state vector automatically.
``reset()`` empties all of them and returns True iff the census afterwards equals the census
taken in this process before any expression was built: only then is the process treated as
equivalent to a pristine one.
"""
import gc
import sys
import weakref
from collections import UserDict

_BASE = None
SKIP_NAMES = {"__all__", "_parameters", "_defaults", "_keyword_only", "__path__", "__annotations__"}


def _containers():
    out = []
    for mname, mod in sorted(sys.modules.items()):
        if not mname.startswith("dask_expr") or ".tests" in mname or mod is None:
            continue
        for aname, val in sorted(vars(mod).items(), key=lambda kv: kv[0]):
            if aname.startswith("__") or aname in SKIP_NAMES:
                continue
            if isinstance(val, (dict, UserDict, weakref.WeakValueDictionary, set, list)):
                out.append((mname + "." + aname, val))
    return out


def census():
    gc.collect()
    out = []
    for name, val in _containers():
        try:
            if isinstance(val, (dict, UserDict, weakref.WeakValueDictionary)):
                ks = tuple(sorted(map(repr, list(val.keys()))))
            else:
                ks = tuple(sorted(map(repr, val)))
        except Exception:  # noqa: BLE001
            ks = ("?",)
        out.append((name, ks))
    from dask_expr._core import Expr

    out.append(("Expr._instances", tuple(sorted(Expr._instances.keys()))))
    return tuple(out)


def mark_pristine():
    """Call in a process that has not built any expression yet."""
    global _BASE
    _BASE = census()
    return _BASE


def reset():
    """Empty every censused container that differs from the pristine census."""
    global _BASE
    if _BASE is None:
        mark_pristine()
        return True
    base = dict(_BASE)
    gc.collect()
    for name, val in _containers():
        want = base.get(name)
        try:
            if isinstance(val, (dict, UserDict, weakref.WeakValueDictionary)):
                cur = tuple(sorted(map(repr, list(val.keys()))))
                if cur != want:
                    if want in (None, ()):
                        val.clear()
                    else:
                        for k in list(val.keys()):
                            if repr(k) not in want:
                                del val[k]
            else:
                cur = tuple(sorted(map(repr, val)))
                if cur != want and want in (None, ()):
                    val.clear()
        except Exception:  # noqa: BLE001
            pass
    gc.collect()
    return census() == _BASE
