"""E3: exploration of dependency-respecting schedules of a real task graph.

A schedule is a linear extension of the task DAG.  All of them are enumerated
when their number is below the cap; the enumeration is reduced by the classic
adjacent-commutation rule (two adjacent tasks that are independent are only
explored in ascending id order), which keeps at least one representative of
every Mazurkiewicz trace under the dependence relation

    dependent(a, b)  iff  a and b read a common key, or one reads the other.

so every relative order of the consumers of every shared key (and of the
writers/readers of a shared partd store, which is an argument key of all of
them) is still produced.  Every task is executed by dask.core._execute_task.
"""
import hashlib

from mc.env import np, pd

from dask.core import _execute_task, get_dependencies


def build_dag(dsk):
    keys = list(dsk)
    deps = {k: set(get_dependencies(dsk, k)) for k in keys}
    order = {k: i for i, k in enumerate(sorted(keys, key=repr))}
    return keys, deps, order


def count_linear_extensions(keys, deps, cap):
    """DP over down-sets (bitmask); stops counting above cap."""
    idx = {k: i for i, k in enumerate(keys)}
    n = len(keys)
    if n > 22:
        return cap + 1
    need = [0] * n
    for k, ds in deps.items():
        m = 0
        for d in ds:
            m |= 1 << idx[d]
        need[idx[k]] = m
    from functools import lru_cache

    full = (1 << n) - 1

    @lru_cache(maxsize=None)
    def cnt(done):
        if done == full:
            return 1
        total = 0
        for i in range(n):
            if not (done >> i) & 1 and (need[i] & done) == need[i]:
                total += cnt(done | (1 << i))
                if total > cap:
                    return total
        return total

    return cnt(0)


def schedules(keys, deps, order, reduce=True, cap=None):
    """Yield linear extensions (lists of keys).  With reduce=True adjacent independent
    inversions are pruned (>= 1 representative per trace)."""
    readers = {}
    for k, ds in deps.items():
        for d in ds:
            readers.setdefault(d, set()).add(k)

    def dependent(a, b):
        if a in deps[b] or b in deps[a]:
            return True
        return bool(deps[a] & deps[b])

    n = len(keys)
    remaining_deps = {k: set(ds) for k, ds in deps.items()}
    produced = [0]
    seq = []
    done = set()

    def rec():
        if cap is not None and produced[0] >= cap:
            return
        if len(seq) == n:
            produced[0] += 1
            yield list(seq)
            return
        ready = sorted((k for k in keys if k not in done and deps[k] <= done), key=order.get)
        prev = seq[-1] if seq else None
        for t in ready:
            if reduce and prev is not None and order[t] < order[prev] and not dependent(prev, t):
                continue
            seq.append(t)
            done.add(t)
            yield from rec()
            done.discard(t)
            seq.pop()
            if cap is not None and produced[0] >= cap:
                return

    yield from rec()


# ---------------------------------------------------------------------------
# fingerprints
# ---------------------------------------------------------------------------


def fp(o, depth=0):
    """Deep fingerprint: values, index, labels, dtypes, names."""
    if depth > 6:
        return "deep"
    if isinstance(o, pd.DataFrame):
        try:
            h = pd.util.hash_pandas_object(o, index=True).values.tobytes()
        except Exception:  # noqa: BLE001
            h = repr(o.to_dict()).encode()
        return ("df", tuple(map(repr, o.columns)), tuple(map(str, o.dtypes)), repr(o.index.names), str(o.index.dtype), repr(o.columns.names), hashlib.sha1(h).hexdigest())
    if isinstance(o, pd.Series):
        try:
            h = pd.util.hash_pandas_object(o, index=True).values.tobytes()
        except Exception:  # noqa: BLE001
            h = repr(o.tolist()).encode()
        return ("s", repr(o.name), str(o.dtype), repr(o.index.names), str(o.index.dtype), hashlib.sha1(h).hexdigest())
    if isinstance(o, pd.Index):
        return ("idx", repr(o.names), str(o.dtype), hashlib.sha1(repr(o.tolist()).encode()).hexdigest())
    if isinstance(o, np.ndarray):
        return ("nd", str(o.dtype), o.shape, hashlib.sha1(o.tobytes() if o.dtype != object else repr(o.tolist()).encode()).hexdigest())
    if isinstance(o, dict):
        return ("dict",) + tuple((repr(k), fp(v, depth + 1)) for k, v in o.items())
    if isinstance(o, (list, tuple)):
        return (type(o).__name__,) + tuple(fp(v, depth + 1) for v in o)
    if isinstance(o, (int, float, str, bytes, bool, type(None), np.generic)):
        return ("v", repr(o))
    if type(o).__module__.startswith("partd"):
        return ("partd", type(o).__name__)
    d = getattr(o, "__dict__", None)
    if d is not None and depth < 3:
        return ("obj", type(o).__name__) + tuple((k, fp(v, depth + 1)) for k, v in sorted(d.items(), key=lambda kv: kv[0]) if not k.startswith("__"))
    return ("repr", type(o).__name__)


def run_schedule(dsk, seq, monitor=True, externals=None):
    """Execute the tasks in the given order.  Returns (cache, mutations) where mutations
    lists (task, victim key or external name) whose fingerprint changed while task ran."""
    cache = {}
    fps = {}
    mutations = []
    ext = externals or {}
    ext_fp = {k: fp(v) for k, v in ext.items()} if monitor else {}
    for k in seq:
        res = _execute_task(dsk[k], cache)
        if monitor:
            for other, f in fps.items():
                nf = fp(cache[other])
                if nf != f:
                    mutations.append((repr(k), repr(other)))
                    fps[other] = nf
            for name, f in ext_fp.items():
                nf = fp(ext[name])
                if nf != f:
                    mutations.append((repr(k), "external:" + name))
                    ext_fp[name] = nf
        cache[k] = res
        if monitor:
            fps[k] = fp(res)
    return cache, mutations
