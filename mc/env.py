"""Binding to the code under test.

Everything in /verif imports dask_expr through this module so that the tree
under test is the working tree at VERIF_REPO (default /repo), whatever is
installed in the interpreter.
"""
import hashlib
import os
import subprocess
import sys
import warnings

REPO = os.environ.get("VERIF_REPO", "/repo")
VERIF = os.path.dirname(os.path.dirname(os.path.abspath(__file__)))
if sys.path[0] != REPO:
    sys.path.insert(0, REPO)
os.environ.setdefault("DASK_EXPR_VERIF", "1")

warnings.filterwarnings("ignore")

import numpy as np  # noqa: E402
import pandas as pd  # noqa: E402
import dask  # noqa: E402

dask.config.set({"dataframe.query-planning": True})
# every compute the planner itself triggers (quantile sampling, len, ...) runs on the
# synchronous scheduler: deterministic and no thread pools in the forked children
dask.config.set(scheduler="synchronous")
import dask_expr  # noqa: E402

assert os.path.abspath(dask_expr.__file__).startswith(os.path.abspath(REPO) + os.sep), (
    dask_expr.__file__,
    REPO,
)

SEED = int(os.environ.get("VERIF_SEED", "0") or 0)
NPROC = int(os.environ.get("VERIF_NPROC", "0") or 0) or min(16, os.cpu_count() or 1)


def tree_id():
    def run(*a):
        try:
            return subprocess.run(
                a, cwd=REPO, capture_output=True, text=True, timeout=30
            ).stdout
        except Exception:
            return ""

    head = run("git", "rev-parse", "HEAD").strip()
    diff = run("git", "diff", "HEAD", "--", "dask_expr")
    return {
        "repo": REPO,
        "dask_expr_file": dask_expr.__file__,
        "head": head,
        "diff_sha1": hashlib.sha1(diff.encode()).hexdigest() if diff else None,
    }
