"""Fixed, tiny, adversarial tables (DESIGN 2.3).

Only pandas objects are built at import time: the parent process that imports
this module stays pristine with respect to dask_expr's planner state.
"""
from mc.env import np, pd, SEED

NaN = float("nan")


def make_T(variant=0):
    a = [3, 1, 2, 1, 3, 2, 4, 4, 5, 1, 2, 6]
    u = [7, 3, 11, 0, 5, 9, 1, 10, 4, 8, 2, 6]
    b = [1.0, 2.5, NaN, 4.0, 0.5, 2.5, -1.0, NaN, 3.0, 1.0, 6.5, 2.0]
    c = ["x", "y", None, "x", "z", "y", "w", "x", None, "z", "y", "v"]
    d = [0, 1, 0, 1, 0, 1, 0, 1, 0, 1, 0, 1]
    if variant:
        k = variant % 12
        rot = lambda l: l[k:] + l[:k]  # noqa: E731
        a, b, c = rot(a), rot(b[::-1]), rot(c)
    return pd.DataFrame({"a": a, "u": u, "b": b, "c": c, "d": d})


def make_T2():
    return pd.DataFrame(
        {
            "a": [1, 1, 2, 4, 7, 8, 2, 9],
            "b": [10.0, 20.0, NaN, 40.0, 50.0, 60.0, 70.0, 80.0],
            "e": [0, 1, 2, 3, 4, 5, 6, 7],
        }
    )


def make_TX():
    """Type-rich table: categorical, datetime, bool columns too."""
    t = make_T()
    t["g"] = pd.Categorical(
        ["p", "q", "p", "r", "q", "p", "r", "r", "q", "p", "q", "p"],
        categories=["p", "q", "r", "s"],
    )
    t["t"] = pd.to_datetime(
        [
            "2020-01-03", "2020-01-01", "2020-01-02", None, "2020-01-05",
            "2020-01-04", "2020-01-01", "2020-01-09", "2020-01-07", "2020-01-03",
            "2020-01-08", "2020-01-06",
        ]
    )
    t["f"] = [True, False, True, True, False, False, True, False, True, True, False, True]
    return t


# The primary table no longer rotates with VERIF_SEED (session 3): the enlarged alphabet was run to completion on variant 1 only,
# and a table variant nobody has run may surface a defect that is not triaged yet, which would read as an alarm on the unchanged
# tree.  Variants 0 and 2 remain available to development runs through VERIF_TABLE_VARIANT.
import os as _os

T = make_T(int(_os.environ.get("VERIF_TABLE_VARIANT", "1")))
T2 = make_T2()
TX = make_TX()

# index variants (sorted so that from_pandas keeps known divisions)
T_float_idx = T.set_index(pd.Index([0.5 * i for i in range(12)], name="fi"))
T_str_idx = T.set_index(pd.Index(list("abcdefghijkl"), name="si"))
T_dt_idx = T.set_index(pd.date_range("2021-01-01", periods=12, freq="D", name="ti"))
T_dup_idx = T.set_index(pd.Index([0, 0, 1, 1, 1, 2, 3, 3, 4, 5, 5, 5], name="di"))

# sorted by a key WITH duplicates (runs of equal keys straddle partition borders): the
# "already sorted" fast paths of set_index / sort_values
T_sorted_dup = T.sort_values("a", kind="stable").reset_index(drop=True)

def make_TL(reps=10):
    """120-row table (same columns as T): partitions large enough for quantile sampling to
    depend on its random state."""
    parts = []
    for r in range(reps):
        t = T.copy()
        t["u"] = [(v * 7 + r * 13 + i * 5) % 997 for i, v in enumerate(t["u"])]
        t["a"] = t["a"] + (r % 4)
        parts.append(t)
    out = pd.concat(parts, ignore_index=True)
    out["u"] = pd.Series(out["u"]).rank(method="first").astype("int64") * 3 % 1009
    return out


TL = make_TL()

PDFS = {
    "TL": TL,
    "Tg": T_sorted_dup,
    "T": T,
    "T2": T2,
    "TX": TX,
    "Tf": T_float_idx,
    "Ts": T_str_idx,
    "Tt": T_dt_idx,
    "Td": T_dup_idx,
}


def dask_dtypes(pdf):
    """The frame held in the column dtypes dask-expr itself uses for it (pyarrow
    strings when enabled): what the pandas reference is applied to."""
    from dask.dataframe.utils import pyarrow_strings_enabled

    if pyarrow_strings_enabled():
        from dask.dataframe._pyarrow import to_pyarrow_string

        return to_pyarrow_string(pdf)
    return pdf


def cut(pdf, bounds):
    """Split pdf into contiguous pieces at the given row positions."""
    edges = [0] + list(bounds) + [len(pdf)]
    return [pdf.iloc[edges[i] : edges[i + 1]] for i in range(len(edges) - 1)]


def _ident(x):
    return x


def from_parts(parts, divisions=None):
    """A dask collection with exactly these partitions (from_map)."""
    import dask_expr as dx

    parts = [p.copy() for p in parts]
    kw = {}
    if divisions is not None:
        kw["divisions"] = tuple(divisions)
    return dx.from_map(_ident, parts, meta=parts[0].iloc[:0], **kw)


def source(spec):
    """Build a dask collection from a source spec string.

    "<table>:<n>"          from_pandas(table, npartitions=n, sort=True)
    "<table>:u<n>"         same but divisions cleared (unknown)
    "<table>:m<c1,c2,..>"  from_map with cuts at these row positions (may repeat => empty partitions)
    "<table>:k<c1,c2,..>"  same, with known divisions (index must be sorted)
    "<table>:s<n>"         from_pandas(rows permuted, sort=True): the source sorts a private copy
    "<table>:p<n>"         from_pandas(...).persist(): partitions held in the graph (FromGraph)
    """
    import dask_expr as dx

    name, _, lay = spec.partition(":")
    pdf = PDFS[name]
    if lay == "":
        lay = "3"
    if lay[0] == "u":
        return dx.from_pandas(pdf, npartitions=int(lay[1:]), sort=False)
    if lay[0] == "d":
        # from_delayed with a user prefix and known divisions
        from dask import delayed

        n = int(lay[1:])
        cuts = [round(i * len(pdf) / n) for i in range(1, n)]
        parts = cut(pdf, cuts)
        divs = [pdf.index[e] for e in [0] + cuts] + [pdf.index[-1]]
        return dx.from_delayed([delayed(_ident, pure=True)(p) for p in parts], meta=pdf.iloc[:0], divisions=tuple(divs), prefix="stage")
    if lay[0] == "s":
        # the user's frame has its rows in another order; from_pandas(sort=True) sorts them (same content as "<table>:<n>")
        perm = [(i * 5 + 3) % len(pdf) for i in range(len(pdf))] if len(pdf) % 5 else list(range(len(pdf) - 1, -1, -1))
        return dx.from_pandas(pdf.iloc[perm], npartitions=int(lay[1:]), sort=True)
    if lay[0] == "p":
        # a persisted collection: the partition objects live in the graph and are shared by every later query
        return dx.from_pandas(pdf, npartitions=int(lay[1:])).persist(scheduler="sync")
    if lay[0] == "a":
        arr = pdf[["a", "u", "b", "d"]].to_numpy(dtype="float64")
        return dx.from_array(arr, chunksize=max(1, len(pdf) // int(lay[1:])), columns=["a", "u", "b", "d"])
    if lay[0] in "mk":
        cuts = [int(c) for c in lay[1:].split(",") if c != ""]
        parts = cut(pdf, cuts)
        divs = None
        if lay[0] == "k":
            idx = pdf.index
            edges = [0] + cuts + [len(pdf)]
            divs = []
            for i in range(len(parts)):
                divs.append(idx[min(edges[i], len(pdf) - 1)])
            divs.append(idx[-1])
        return from_parts(parts, divs)
    return dx.from_pandas(pdf, npartitions=int(lay))


def source_pdf(spec):
    return PDFS[spec.partition(":")[0]]
