"""Independent structural key of an expression (DESIGN 2.4).

Never uses ``_name`` / dask tokenisation: C08 is about those being wrong.
Two expressions have the same key iff they have the same class and
recursively equal operands, where data operands are compared by value.
"""
import functools
import hashlib
import types

from mc.env import np, pd

from dask_expr._core import Expr
from dask_expr._util import _BackendData


def _h(b):
    return hashlib.sha1(b).hexdigest()[:20]


def _pandas_key(o):
    try:
        if isinstance(o, pd.DataFrame):
            return (
                "pd.DataFrame",
                tuple(map(repr, o.columns)),
                tuple(map(str, o.dtypes)),
                repr(o.index.names),
                str(o.index.dtype),
                _h(repr(o.index.tolist()).encode()),
                _h(repr([o.iloc[:, i].tolist() for i in range(o.shape[1])]).encode()),
            )
        if isinstance(o, pd.Series):
            return ("pd.Series", repr(o.name), str(o.dtype), repr(o.index.names), _h(repr(o.index.tolist()).encode()), _h(repr(o.tolist()).encode()))
        if isinstance(o, pd.Index):
            return ("pd.Index", repr(o.names), str(o.dtype), _h(repr(o.tolist()).encode()))
    except Exception:
        pass
    return ("pd?", type(o).__name__, repr(o))


def _callable_key(f, memo):
    if isinstance(f, functools.partial):
        return ("partial", _callable_key(f.func, memo), okey(f.args, memo), okey(f.keywords, memo))
    mod = getattr(f, "__module__", None)
    qn = getattr(f, "__qualname__", None) or getattr(f, "__name__", None)
    if isinstance(f, types.FunctionType):
        clo = ()
        if f.__closure__:
            try:
                clo = tuple(okey(c.cell_contents, memo) for c in f.__closure__)
            except ValueError:
                clo = ("<empty cell>",)
        code = f.__code__
        return ("fn", mod, qn, _h(code.co_code), repr(code.co_consts) if "<lambda>" in (qn or "") else "", clo, okey(f.__defaults__, memo))
    if isinstance(f, types.MethodType):
        return ("method", _callable_key(f.__func__, memo), okey(f.__self__, memo))
    if isinstance(f, type):
        return ("type", mod, qn)
    if qn is not None:
        return ("callable", mod, qn)
    # callable instance (e.g. dask.utils.methodcaller, operator.methodcaller)
    return ("callable-obj", type(f).__module__, type(f).__qualname__, repr(f) if " at 0x" not in repr(f) else okey(getattr(f, "__dict__", None), memo))


def okey(o, memo=None):
    if memo is None:
        memo = {}
    if isinstance(o, Expr):
        return ekey(o, memo)
    if hasattr(o, "expr") and isinstance(getattr(o, "expr", None), Expr):
        return ("collection", ekey(o.expr, memo))
    if isinstance(o, _BackendData):
        return ("backend", okey(o._data, memo))
    if isinstance(o, (pd.DataFrame, pd.Series, pd.Index)):
        return _pandas_key(o)
    if isinstance(o, np.ndarray):
        return ("ndarray", str(o.dtype), o.shape, _h(repr(o.tolist()).encode()))
    if isinstance(o, (str, bytes, int, float, bool, complex, type(None))):
        if isinstance(o, float) and o != o:
            return ("float", "nan")
        return (type(o).__name__, o)
    if isinstance(o, np.generic):
        return ("np." + type(o).__name__, repr(o))
    if isinstance(o, (pd.Timestamp, pd.Timedelta, pd.Period, pd.Interval)):
        return (type(o).__name__, repr(o))
    if isinstance(o, (list, tuple)):
        return (type(o).__name__,) + tuple(okey(x, memo) for x in o)
    if isinstance(o, (set, frozenset)):
        return (type(o).__name__,) + tuple(sorted((okey(x, memo) for x in o), key=repr))
    if isinstance(o, dict):
        return ("dict",) + tuple(sorted(((okey(k, memo), okey(v, memo)) for k, v in o.items()), key=repr))
    if isinstance(o, slice):
        return ("slice", okey(o.start, memo), okey(o.stop, memo), okey(o.step, memo))
    if isinstance(o, (np.dtype,)) or type(o).__module__.startswith("pandas") and "Dtype" in type(o).__name__:
        return ("dtype", repr(o))
    if callable(o):
        return _callable_key(o, memo)
    r = repr(o)
    if " at 0x" in r:
        d = getattr(o, "__dict__", None)
        return ("obj", type(o).__module__, type(o).__qualname__, okey(d, memo) if d is not None else "?")
    return ("repr", type(o).__module__, type(o).__qualname__, r)


def ekey(e, memo=None):
    """Structural key (a short digest string) of an expression."""
    if memo is None:
        memo = {}
    i = id(e)
    if i in memo:
        return memo[i]
    parts = (type(e).__module__, type(e).__qualname__, tuple(okey(o, memo) for o in e.operands))
    k = "E:" + _h(repr(parts).encode())
    memo[i] = k
    return k
