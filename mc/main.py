"""CLI: ./check C07 [--tier quick|thorough] [--replay file]"""
import argparse
import importlib
import json
import os
import sys


def main():
    ap = argparse.ArgumentParser()
    ap.add_argument("prop")
    ap.add_argument("--tier", default=os.environ.get("VERIF_TIER", "quick"))
    ap.add_argument("--replay")
    a = ap.parse_args()
    prop = a.prop.upper()
    modname = f"checks.{prop.lower()}"
    from mc import env  # noqa: F401  (binds dask_expr to the tree under test)
    from mc.runner import Ctx

    mod = importlib.import_module(modname)
    if a.replay:
        with open(a.replay) as f:
            rep = json.load(f)
        if hasattr(mod, "setup"):
            mod.setup()
        try:
            rc = replay(mod, rep, a.replay)
        finally:
            if hasattr(mod, "teardown"):
                mod.teardown()
        sys.exit(rc)
    ctx = Ctx(prop, a.tier, modname)
    rc = mod.run(ctx)
    sys.exit(rc)


def replay(mod, rep, path):
    from mc.runner import pmap, _has_kind

    evaluate = getattr(mod, rep.get("evaluate", "evaluate"))
    res = pmap(_replay_one, [rep["case"]] * 2, args=(evaluate,), chunk=1)
    hits = [(_has_kind(r, rep["kind"]) or (r.get("viols") or [None])[0]) for _, r in res]
    for _, r in res:
        print(json.dumps(r, default=str)[:2000])
    if all(h is not None for h in hits):
        print(f"VIOLATION property={rep['property']} replay={path}")
        return 1
    print("replay: not reproduced")
    return 0


def _replay_one(case, evaluate):
    return evaluate(case)


if __name__ == "__main__":
    main()
