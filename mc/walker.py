"""Plan walker: execute a lowered plan once keeping every key, then examine
every node of the plan against its declared partition structure (C06) and
schema (C07)."""
from mc import core
from mc.core import canon, dtype_kind, kinds_compatible, is_frame_like, norm_value
from mc.env import np, pd


def run_keep_all(plan):
    from dask.core import _execute_task, toposort

    dsk = plan.__dask_graph__()
    cache = {}
    for k in toposort(dsk):
        cache[k] = _execute_task(dsk[k], cache)
    return cache


def node_parts(node, cache):
    parts = []
    for i in range(node.npartitions):
        k = (node._name, i)
        if k not in cache:
            return None, f"partition key {i} of {node.npartitions} missing from graph"
        parts.append(cache[k])
    if (node._name, node.npartitions) in cache:
        return parts, f"graph defines more than npartitions={node.npartitions} partitions"
    return parts, None


def _le(a, b):
    try:
        return bool(a <= b)
    except Exception:  # noqa: BLE001
        return None


def _lt(a, b):
    try:
        return bool(a < b)
    except Exception:  # noqa: BLE001
        return None


def _isnull(v):
    try:
        return v is None or bool(pd.isna(v))
    except Exception:  # noqa: BLE001
        return False


def check_structure(node, parts, perr):
    """C06 for one node: returns list of problem strings."""
    probs = []
    if perr:
        probs.append("npartitions: " + perr)
    try:
        divs = tuple(node.divisions)
    except Exception as e:  # noqa: BLE001
        return probs + [f"divisions raised {type(e).__name__}"]
    if len(divs) != node.npartitions + 1:
        probs.append(f"len(divisions)={len(divs)} != npartitions+1={node.npartitions + 1}")
        return probs
    if parts is None:
        return probs
    known = all(not _isnull(d) for d in divs)
    if not known:
        return probs
    for i in range(len(divs) - 1):
        ok = _le(divs[i], divs[i + 1]) if i == len(divs) - 2 else _lt(divs[i], divs[i + 1])
        if ok is False:
            probs.append(f"divisions not sorted: {divs}")
            return probs
    for i, p in enumerate(parts):
        if isinstance(p, (pd.DataFrame, pd.Series)):
            idx = p.index
        elif isinstance(p, pd.Index):
            idx = p
        else:
            continue
        if len(idx) == 0 or isinstance(idx, pd.MultiIndex):
            continue
        try:
            vals = idx[~idx.isna()]
            if len(vals) == 0:
                continue
            lo, hi = vals.min(), vals.max()
        except Exception:  # noqa: BLE001
            continue
        last = i == len(parts) - 1
        c1 = _le(divs[i], lo)
        c2 = _le(hi, divs[i + 1]) if last else _lt(hi, divs[i + 1])
        if c1 is False or c2 is False:
            probs.append(f"partition {i} index range [{lo}, {hi}] outside divisions [{divs[i]}, {divs[i+1]}{']' if last else ')'}")
            break
    return probs


def _names(obj):
    if isinstance(obj, pd.DataFrame):
        return ("frame", [norm_value(c) if not isinstance(c, tuple) else ("l", tuple(map(norm_value, c))) for c in obj.columns], [norm_value(n) for n in obj.index.names])
    if isinstance(obj, pd.Series):
        return ("series", [norm_value(obj.name) if not isinstance(obj.name, tuple) else ("l", tuple(map(norm_value, obj.name)))], [norm_value(n) for n in obj.index.names])
    if isinstance(obj, pd.Index):
        return ("index", [norm_value(n) for n in obj.names], [])
    return ("scalar", [], [])


def _kinds(obj):
    if isinstance(obj, pd.DataFrame):
        return [dtype_kind(d) for d in obj.dtypes]
    if isinstance(obj, (pd.Series, pd.Index)):
        return [dtype_kind(obj.dtype)]
    return []


def check_schema(meta, obj, what, strict_kinds=True):
    """C07: declared meta vs a computed object (a partition or the full result)."""
    m, o = _names(meta), _names(obj)
    if m[0] != o[0]:
        return f"{what}: container declared {m[0]} computed {o[0]}"
    if m[0] == "scalar":
        return None
    if m[1] != o[1]:
        return f"{what}: labels declared {m[1]} computed {o[1]}"
    if m[2] != o[2]:
        return f"{what}: index names declared {m[2]} computed {o[2]}"
    if strict_kinds:
        for i, (km, ko) in enumerate(zip(_kinds(meta), _kinds(obj))):
            if not kinds_compatible(km, ko):
                # empty / all-null pieces legitimately degrade to object/float
                if len(obj) == 0:
                    continue
                try:
                    col = obj.iloc[:, i] if isinstance(obj, pd.DataFrame) else obj
                    if bool(pd.isna(col).all()):
                        continue
                except Exception:  # noqa: BLE001
                    pass
                return f"{what}: dtype kind of column {i} declared {km} computed {ko}"
    return None
