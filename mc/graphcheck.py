"""Pure analysis of a materialised task graph (C09 oracle)."""
import pickle

from mc.env import dask, pd, np

from dask.core import get_dependencies, istask, toposort  # noqa: F401
from dask_expr._core import Expr


def _walk_task(t, keys, refs, bad, depth=0):
    """Collect references to graph keys and planner objects inside a task."""
    if depth > 50:
        return
    if isinstance(t, Expr) or (hasattr(t, "expr") and isinstance(getattr(t, "expr", None), Expr)):
        bad.append(type(t).__name__)
        return
    tt = type(t)
    if tt is tuple:
        try:
            if t in keys:
                refs.add(t)
                return
        except TypeError:
            pass
        for x in t:
            _walk_task(x, keys, refs, bad, depth + 1)
    elif tt is list:
        for x in t:
            _walk_task(x, keys, refs, bad, depth + 1)
    elif tt is dict:
        for x in t.values():
            _walk_task(x, keys, refs, bad, depth + 1)
    elif tt is str:
        if t in keys:
            refs.add(t)


def looks_like_key(t, names):
    """A (name, int) tuple whose name is an expression name of the plan."""
    return type(t) is tuple and len(t) == 2 and isinstance(t[0], str) and isinstance(t[1], (int, np.integer)) and t[0] in names


def _dangling(t, keys, names, out, depth=0):
    if depth > 50:
        return
    tt = type(t)
    if tt is tuple:
        if looks_like_key(t, names):
            try:
                if t not in keys:
                    out.append(t)
            except TypeError:
                pass
            return
        for x in t:
            _dangling(x, keys, names, out, depth + 1)
    elif tt is list:
        for x in t:
            _dangling(x, keys, names, out, depth + 1)
    elif tt is dict:
        for x in t.values():
            _dangling(x, keys, names, out, depth + 1)


def _group_names(node):
    from dask_expr._expr import Fused

    out = set()
    for e in node.exprs:
        out.add(e._name)
        if isinstance(e, Fused):
            out |= _group_names(e)
    return out


def fused_inner_problems(expr):
    """Check the per-partition sub-graph of every Fused node for closure."""
    from dask_expr._expr import Fused

    probs = []
    for node in expr.walk():
        if not isinstance(node, Fused):
            continue
        names = _group_names(node) | {d._name for d in node.dependencies()}
        for i in range(node.npartitions):
            try:
                task = node._task(i)
                graph, name = task[1], task[2]
                ndeps = len(task) - 3
            except Exception as e:  # noqa: BLE001
                probs.append(f"fused task construction raised {type(e).__name__}")
                break
            if not isinstance(graph, dict):
                probs.append("fused graph not a dict")
                break
            inner_keys = set(graph)
            for k, t in graph.items():
                dang = []
                _dangling(t, inner_keys, names, dang)
                for dk in dang:
                    probs.append(f"fused group part {i}: inner key ({dk[0][:16]}..,{dk[1]}) referenced but not defined")
                if isinstance(t, str) and t.startswith("_") and t[1:].isdigit() and int(t[1:]) >= ndeps:
                    probs.append(f"fused group part {i}: placeholder {t} has no dependency")
            if name not in graph:
                probs.append(f"fused group part {i}: output alias missing")
    return probs


def analyse(expr, serialise=True):
    """Return a list of problem strings for the (lowered) plan ``expr``."""
    probs = []
    graph = expr.__dask_graph__()
    graph = dict(graph)
    keys = set(graph)
    out_keys = list(expr.__dask_keys__())
    names = {n._name for n in expr.walk()} | {k[0] for k in keys if type(k) is tuple and len(k) == 2 and isinstance(k[0], str)}
    # 1. every output key defined
    if len(out_keys) != expr.npartitions:
        probs.append(f"output keys {len(out_keys)} != npartitions {expr.npartitions}")
    for k in out_keys:
        if k not in keys:
            probs.append(f"output key {k} not defined")
    # 2. closure: everything that looks like a key of this plan is defined; no planner objects
    for k, t in graph.items():
        dang, bad, refs = [], [], set()
        _dangling(t, keys, names, dang)
        _walk_task(t, keys, refs, bad)
        for d in dang:
            probs.append(f"task {k} references undefined key {d}")
        for b in bad:
            probs.append(f"task {k} embeds planner object {b}")
    # 3. acyclic
    try:
        toposort(graph)
    except Exception as e:  # noqa: BLE001
        probs.append(f"toposort failed: {type(e).__name__}: {str(e)[:80]}")
    # 4. no two expressions contribute different tasks under one key
    owner = {}
    for node in expr.walk():
        try:
            layer = node._layer()
        except Exception as e:  # noqa: BLE001
            probs.append(f"_layer of {type(node).__name__} raised {type(e).__name__}")
            continue
        for k, t in layer.items():
            if k in owner:
                o, ot = owner[k]
                if o != node._name and not _same_task(ot, t):
                    probs.append(f"key {k} defined by two expressions with different tasks ({o[:20]} / {node._name[:20]})")
            else:
                owner[k] = (node._name, t)
    probs.extend(fused_inner_problems(expr))
    # 5. serialisable without planner objects
    if serialise:
        import cloudpickle

        with dask.config.set({"dask-expr-no-serialize": True}):
            try:
                cloudpickle.loads(cloudpickle.dumps(graph))
            except Exception as e:  # noqa: BLE001
                probs.append(f"graph not serialisable: {type(e).__name__}: {str(e)[:100]}")
    return probs, len(graph)


def _same_task(a, b):
    try:
        if a is b:
            return True
        r = a == b
        if isinstance(r, bool):
            return r
    except Exception:  # noqa: BLE001
        pass
    try:
        return pickle.dumps(a) == pickle.dumps(b)
    except Exception:  # noqa: BLE001
        return repr(a) == repr(b)
