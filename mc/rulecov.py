"""Rule coverage (DESIGN 2.7): which rewrite hooks defined in the tree were executed, with which
parent class, and whether they fired.  Wrappers are installed from the harness in the child."""
import functools

_installed = False
SEEN = set()
HOOKS = ("_simplify_up", "_simplify_down", "_lower", "_tune_up", "_tune_down")


def all_expr_classes():
    import importlib
    import pkgutil

    import dask_expr
    from dask_expr._core import Expr

    for m in pkgutil.walk_packages(dask_expr.__path__, "dask_expr."):
        if ".tests" in m.name or "distributed" in m.name or "diagnostics" in m.name:
            continue
        try:
            importlib.import_module(m.name)
        except Exception:  # noqa: BLE001
            pass
    out, stack = set(), [Expr]
    while stack:
        c = stack.pop()
        for s in c.__subclasses__():
            if s not in out:
                out.add(s)
                stack.append(s)
    return out


def denominators():
    d = {}
    for c in all_expr_classes():
        for h in HOOKS:
            if h in c.__dict__:
                d.setdefault(h, set()).add(c.__name__)
    return d


def install():
    global _installed
    if _installed:
        return
    _installed = True
    for c in all_expr_classes():
        for h in HOOKS:
            f = c.__dict__.get(h)
            if f is None or not callable(f):
                continue

            def make(f, cname, h):
                @functools.wraps(f)
                def w(self, *a, **k):
                    out = f(self, *a, **k)
                    parent = type(a[0]).__name__ if a and h.endswith("_up") else ""
                    fired = out is not None and getattr(out, "_name", None) != (a[0]._name if parent else self._name)
                    SEEN.add((cname, h, parent, bool(fired)))
                    return out

                return w

            setattr(c, h, make(f, c.__name__, h))


def drain():
    out = sorted(SEEN)
    SEEN.clear()
    return out
